#!/bin/bash
# usage: tools/try_patch.sh <patch.diff> <check props...> : applies the patch in a scratch worktree and runs the checks (development aid)
patch="$1"; shift
export GOFLAGS=-mod=mod GOPROXY=off GOSUMDB=off GOTOOLCHAIN=local
wt=/tmp/trywt_$$
git -C /repo worktree add -q --detach $wt HEAD || exit 2
trap 'git -C /repo worktree remove --force '$wt' 2>/dev/null; rm -rf '$wt' /tmp/tryout_'$$ EXIT
git -C $wt apply "$patch" || exit 3
for p in "$@"; do
  ( cd /verif && VERIF_REPO=$wt VERIF_OUT=/tmp/tryout_$$ ./bin/verif check $p 2>&1 | grep -v "^KNOWN" | grep -A1 "^VIOLATION\|^OK\|^INCONC\|^MODEL-DRIFT" | head -${TRY_LINES:-6} | cut -c1-${TRY_COLS:-330} )
done
