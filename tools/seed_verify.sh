#!/bin/bash
# usage: tools/seed_verify.sh <source dir with patch.diff run.sh meta.json demo...> <seed id> <property> [<check props to run>...]
# Confirms a seeded change in a scratch worktree (suite passes with it, demo fails with it, demo passes without it),
# stores it under /verif/seeded/<id>/ and records which of our checks catch it.
src="$1"; id="$2"; prop="$3"; shift 3
export GOFLAGS=-mod=mod GOPROXY=off GOSUMDB=off GOTOOLCHAIN=local
wt=/tmp/seedwt_$id
git -C /repo worktree remove --force $wt 2>/dev/null; rm -rf $wt
git -C /repo worktree add -q --detach $wt HEAD || exit 2
trap 'git -C /repo worktree remove --force '$wt' 2>/dev/null; rm -rf '$wt' /tmp/seedout_'$id EXIT
res() { echo "$1" >> /tmp/seed_$id.log; }
: > /tmp/seed_$id.log
# demo without the change
demo_clean=skip; demo_mut=skip
if [ -x "$src/run.sh" ] || [ -f "$src/run.sh" ]; then
  bash "$src/run.sh" $wt > /tmp/seed_${id}_clean.out 2>&1; demo_clean=$?
fi
( cd $wt && git checkout -q -- . && git clean -fdq )
if ! git -C $wt apply "$src/patch.diff" 2>/tmp/seed_${id}_apply.err; then
  if ! git -C $wt apply -3 "$src/patch.diff" 2>>/tmp/seed_${id}_apply.err; then echo "$id: PATCH DOES NOT APPLY"; cat /tmp/seed_${id}_apply.err | head -5; exit 3; fi
fi
git -C $wt diff > /tmp/seed_${id}_patch.diff
( cd $wt && go build ./... && go test -vet=off -count=1 ./... ) > /tmp/seed_${id}_suite.out 2>&1; suite=$?
if [ -f "$src/run.sh" ]; then
  bash "$src/run.sh" $wt > /tmp/seed_${id}_mut.out 2>&1; demo_mut=$?
fi
( cd $wt && git checkout -q -- . && git clean -fdq )
echo "$id: suite_with_change=$suite demo_without=$demo_clean demo_with=$demo_mut"
ok=no
if [ "$suite" = 0 ] && [ "$demo_clean" = 0 ] && [ "$demo_mut" != 0 ] && [ "$demo_mut" != skip ]; then ok=yes; fi
if [ "$demo_mut" = skip ] && [ "$suite" = 0 ]; then ok=nodemo; fi
# our checks against the change (applied to /repo, always undone)
caught=""; missed=""
if [ "$ok" != no ]; then
  for p in "$@"; do
    git -C $wt apply /tmp/seed_${id}_patch.diff
    out=$(cd ${VERIF_HOME:-/verif} && VERIF_REPO=$wt VERIF_OUT=/tmp/seedout_$id ./bin/verif check $p 2>&1); code=$?
    ( cd $wt && git checkout -q -- . && git clean -fdq )
    if [ $code = 1 ]; then caught="$caught $p"; else missed="$missed $p(exit=$code)"; fi
    echo "$out" | grep -E "VIOLATION|^  \[" | head -2 | cut -c1-300 > /tmp/seed_${id}_$p.out
  done
fi
echo "$id: confirmed=$ok caught_by=[$caught ] not_caught_by=[$missed ]"
mkdir -p /verif/seeded/$id
cp /tmp/seed_${id}_patch.diff /verif/seeded/$id/patch.diff
for f in "$src"/*; do b=$(basename $f); [ "$b" = patch.diff ] || [ "$b" = meta.json ] || cp -r "$f" /verif/seeded/$id/; done
python3 - "$src" "$id" "$prop" "$ok" "$suite" "$demo_clean" "$demo_mut" "$caught" "$missed" <<'PY'
import json,sys,os
src,id,prop,ok,suite,dc,dm,caught,missed=sys.argv[1:10]
m={}
try: m=json.load(open(os.path.join(src,'meta.json')))
except Exception: pass
meta={"id":id,"property":prop,"summary":m.get("summary",""),"needs":m.get("needs",""),"origin":m.get("origin","independent sub-agent given only the property text and a scratch worktree"),
 "confirmed_by_us":{"in":"scratch worktree of /repo HEAD (removed afterwards)","patch_applies":True,"suite_passes_with_change":suite=="0","demo_passes_without_change":dc=="0","demo_fails_with_change":dm not in ("0","skip"),"commands":["go build ./... && go test -vet=off -count=1 ./...","bash run.sh <worktree>  (before and after git apply patch.diff)"]},
 "kept":ok in("yes","nodemo"),
 "our_checks":{"caught_by":caught.split(),"not_caught_by":missed.split(),"how":"patch applied in a scratch worktree; VERIF_REPO=<worktree> bin/verif check <Cxx> --tier quick; worktree removed"}}
json.dump(meta,open('/verif/seeded/%s/meta.json'%id,'w'),indent=1)
PY
