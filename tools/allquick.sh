#!/bin/bash
# usage: tools/allquick.sh <seed> ; runs every quick check with that seed against scratch output (VERIF_OUT), prints exit codes
seed=$1; out=/tmp/allquick_$seed; mkdir -p $out
cd /verif
for p in C01 C02 C03 C04 C05 C06 C07 C08 C09 C10 C11 C12 C13 C14 C15 C16 C17 C18 C19 C20; do
  s=$(date +%s)
  VERIF_SEED=$seed VERIF_OUT=$out ./bin/verif check $p --tier quick > $out/$p.log 2>&1; code=$?
  e=$(date +%s)
  echo "seed=$seed $p exit=$code $((e-s))s $(grep -c VIOLATION $out/$p.log) violations"
done
