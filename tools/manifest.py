#!/usr/bin/env python3
# regenerates /verif/MANIFEST.json (static file, committed); run by hand after adding a property
import json
props = {}
for l in open('/verif/properties.jsonl'):
    p = json.loads(l); props[p['id']] = p
claimed = json.load(open('/verif/tools/claims.json'))
checks = []
for pid, c in sorted(claimed['checks'].items()):
    checks.append({
        "property_id": pid,
        "quick_cmd": f"bin/verif check {pid} --tier quick",
        "thorough_cmd": f"bin/verif check {pid} --tier thorough",
        "evidence_file": f"/verif/evidence/{pid}.json",
        "replay_cmd_template": f"bin/verif replay {pid} {{path}}",
        "engine": "verif",
        "level_claimed": {"category": c["level"], "text": c["text"], "design_ref": c.get("ref", "DESIGN.md §6 " + pid)},
        "level_note": c["note"],
        "technique": c["technique"],
    })
na = [{"property_id": pid, "reason": r} for pid, r in sorted(claimed.get("not_applicable", {}).items())]
for pid in props:
    if pid not in claimed['checks'] and pid not in claimed.get("not_applicable", {}):
        na.append({"property_id": pid, "reason": "check not built yet in this revision of the framework (no technique switch; see DESIGN.md build order)"})
m = {
    "version": 1,
    "setup_cmd": "cd /verif && GOFLAGS=-mod=mod GOPROXY=off GOSUMDB=off GOTOOLCHAIN=local go build -o bin/verif ./cmd/verif && bin/verif selftest --fast",
    "hooks": {
        "guard": "verif",
        "enable": "no hook commits in /repo: the harness is an external test module (replace => /repo) built from /repo's working tree; white-box probes and concurrency shims are injected at build time with `go test -tags verif -overlay <generated>.json` (DESIGN.md §4.2, §5.2)",
        "baseline_off_cmd": "cd /repo && GOFLAGS=-mod=mod GOPROXY=off GOSUMDB=off GOTOOLCHAIN=local go test -vet=off -count=1 ./...",
        "source_commits": [],
        "add_only": True,
    },
    "engines": [{"name": "verif", "path": "/verif/cmd/verif", "serves_properties": sorted(claimed['checks'].keys()),
                 "kind_free_text": "Go orchestrator: runs TLC on the TLA+ specifications in /verif/spec (bounded model checking, history generation), builds the scripted driver against /repo's working tree, executes generated and random histories on the real code, and has TLC validate the recorded traces against the contract specification"}],
    "checks": checks,
    "notes": claimed.get("notes", ""),
    "not_applicable": sorted(na, key=lambda x: x["property_id"]),
}
json.dump(m, open('/verif/MANIFEST.json', 'w'), indent=1)
print("checks:", len(checks), "not_applicable:", len(na))
