#!/bin/sh
# usage: tools/mutant.sh <patch.diff> <Cxx> [<Cxx>...]   -- apply a seeded change to /repo, run quick checks, always undo
patch="$1"; shift
cd /repo || exit 2
if [ -n "$(git status --porcelain)" ]; then echo "/repo not clean"; exit 2; fi
trap 'git -C /repo checkout -- . ; git -C /repo clean -fdq' EXIT INT TERM
git apply "$patch" || exit 2
cd /verif
for p in "$@"; do
  out=$(VERIF_OUT=/tmp/mutant_out ./bin/verif check "$p" 2>&1); code=$?
  echo "== $p exit=$code"
  echo "$out" | grep -E "VIOLATION|INCONCLUSIVE|KNOWN-FINDING|^  \[" | cut -c1-400 | head -8
done
