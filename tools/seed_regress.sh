#!/bin/bash
# usage: tools/seed_regress.sh <seeded id> : re-runs the first check recorded in caught_by against the seeded change
# (scratch worktree, VERIF_REPO/VERIF_OUT); prints "<id> <check> still-caught|LOST(exit=n)". Does not rewrite meta.json.
id="$1"
export GOFLAGS=-mod=mod GOPROXY=off GOSUMDB=off GOTOOLCHAIN=local
home=${VERIF_HOME:-/verif}
chk=$(python3 -c "import json;print(json.load(open('/verif/seeded/$id/meta.json'))['our_checks']['caught_by'][0])")
wt=/tmp/regwt_$id
git -C /repo worktree remove --force $wt 2>/dev/null; rm -rf $wt
git -C /repo worktree add -q --detach $wt HEAD || exit 2
trap 'git -C /repo worktree remove --force '$wt' 2>/dev/null; rm -rf '$wt' /tmp/regout_'$id EXIT
git -C $wt apply /verif/seeded/$id/patch.diff || { echo "$id PATCH DOES NOT APPLY"; exit 3; }
( cd $home && VERIF_REPO=$wt VERIF_OUT=/tmp/regout_$id ./bin/verif check $chk > /tmp/regout_$id.log 2>&1 ); code=$?
if [ $code = 1 ]; then echo "$id $chk still-caught"; else echo "$id $chk LOST(exit=$code)"; fi
