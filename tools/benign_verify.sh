#!/bin/bash
# usage: tools/benign_verify.sh <patch.diff> <id> [<check props>...]   (default: all 20)
# Applies a behaviour-preserving change in a scratch worktree, runs the repository suite and our quick checks against it
# (VERIF_REPO/VERIF_OUT: neither /repo nor /verif/evidence is touched). Every check must exit 0.
patch="$1"; id="$2"; shift 2
checks="$@"; [ -z "$checks" ] && checks="C01 C02 C03 C04 C05 C06 C07 C08 C09 C10 C11 C12 C13 C14 C15 C16 C17 C18 C19 C20"
export GOFLAGS=-mod=mod GOPROXY=off GOSUMDB=off GOTOOLCHAIN=local
wt=/tmp/benwt_$id; res=/tmp/benres/$id; mkdir -p $res
git -C /repo worktree remove --force $wt 2>/dev/null; rm -rf $wt
git -C /repo worktree add -q --detach $wt HEAD || exit 2
trap 'git -C /repo worktree remove --force '$wt' 2>/dev/null; rm -rf '$wt' /tmp/benout_'$id EXIT
git -C $wt apply "$patch" || git -C $wt apply -3 "$patch" || { echo "$id: PATCH DOES NOT APPLY"; exit 3; }
( cd $wt && go build ./... && go test -vet=off -count=1 ./... ) > $res/suite.out 2>&1; suite=$?
echo "$id: suite=$suite"
for p in $checks; do
  s=$(date +%s)
  ( cd ${VERIF_HOME:-/verif} && VERIF_REPO=$wt VERIF_OUT=/tmp/benout_$id ${VERIF_HOME:-/verif}/bin/verif check $p > $res/$p.log 2>&1 ); code=$?
  e=$(date +%s)
  echo "$id: $p exit=$code $((e-s))s viol=$(grep -c '^VIOLATION' $res/$p.log)"
done
