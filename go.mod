module verif

go 1.22
