//go:build verif

package difflib

// White-box probe injected with `go test -overlay` (DESIGN.md §4.2, D4): the opcode clauses of C13
// name the line edit script, which lives in this internal package. Nothing here is committed to
// the repository.

import (
	"encoding/base64"
	"encoding/json"
	"os"
	"testing"
)

type probeIn struct {
	A []string `json:"a"`
	B []string `json:"b"`
}

type probeOp struct {
	T  int `json:"t"`
	I1 int `json:"i1"`
	I2 int `json:"i2"`
	J1 int `json:"j1"`
	J2 int `json:"j2"`
}

type probeOut struct {
	Ops    []probeOp   `json:"ops"`
	Groups [][]probeOp `json:"groups"`
}

func conv(cs []OpCode) []probeOp {
	out := make([]probeOp, len(cs))
	for i, c := range cs {
		out[i] = probeOp{int(c.Tag), c.I1, c.I2, c.J1, c.J2}
	}
	return out
}

func TestVerifDiffProbe(t *testing.T) {
	in := os.Getenv("VERIF_DIFF_IN")
	if in == "" {
		t.Skip("no input")
	}
	b, err := os.ReadFile(in)
	if err != nil {
		t.Fatal(err)
	}
	var pairs []probeIn
	if err := json.Unmarshal(b, &pairs); err != nil {
		t.Fatal(err)
	}
	outs := make([]probeOut, len(pairs))
	dec := func(xs []string) []string {
		out := make([]string, len(xs))
		for i, x := range xs {
			b, err := base64.StdEncoding.DecodeString(x)
			if err != nil {
				t.Fatal(err)
			}
			out[i] = string(b)
		}
		return out
	}
	for i, p := range pairs {
		p.A, p.B = dec(p.A), dec(p.B)
		m := NewMatcher(p.A, p.B)
		ops := append([]OpCode{}, m.getOpCodes()...)
		outs[i].Ops = conv(ops)
		m2 := NewMatcher(p.A, p.B)
		outs[i].Groups = [][]probeOp{}
		for _, g := range m2.GetGroupedOpCodes(3) {
			outs[i].Groups = append(outs[i].Groups, conv(g))
		}
	}
	ob, _ := json.Marshal(outs)
	if err := os.WriteFile(os.Getenv("VERIF_DIFF_OUT"), ob, 0o644); err != nil {
		t.Fatal(err)
	}
}
