//go:build verif

// Package gate is the scheduler gate of the go-snaps verification harness (DESIGN.md §5.2).
// It is injected into the module with `go test -overlay`; nothing of it is committed to the
// repository. Shimmed os/sync primitives call Yield BEFORE performing the operation; without an
// installed scheduler Yield is a no-op.
package gate

import (
	"bytes"
	"runtime"
	"strconv"
	"sync"
)

// Op is one primitive about to be performed by a registered goroutine.
type Op struct {
	G    string `json:"g"`
	Kind string `json:"op"`
	Arg  string `json:"arg,omitempty"`
}

type waiter struct {
	op     Op
	resume chan struct{}
}

type Scheduler struct {
	mu     sync.Mutex
	names  map[uint64]string  // goroutine id -> logical name
	parked map[string]*waiter // goroutines blocked in Yield
	done   map[string]bool
	events chan struct{} // something changed (park / finish)
	Log    []Op
}

var (
	cur   *Scheduler
	curMu sync.RWMutex
)

func Install(s *Scheduler) {
	curMu.Lock()
	cur = s
	curMu.Unlock()
}

func New() *Scheduler {
	return &Scheduler{names: map[uint64]string{}, parked: map[string]*waiter{}, done: map[string]bool{}, events: make(chan struct{}, 1024)}
}

func goid() uint64 {
	var buf [64]byte
	b := buf[:runtime.Stack(buf[:], false)]
	b = bytes.TrimPrefix(b, []byte("goroutine "))
	i := bytes.IndexByte(b, ' ')
	n, _ := strconv.ParseUint(string(b[:i]), 10, 64)
	return n
}

// Register names the calling goroutine; only registered goroutines are gated.
func (s *Scheduler) Register(name string) {
	s.mu.Lock()
	s.names[goid()] = name
	s.mu.Unlock()
}

// Finish tells the scheduler the calling goroutine has completed its work.
func (s *Scheduler) Finish() {
	s.mu.Lock()
	name := s.names[goid()]
	delete(s.names, goid())
	s.done[name] = true
	s.mu.Unlock()
	select {
	case s.events <- struct{}{}:
	default:
	}
}

// Yield parks the calling goroutine (if registered) until the scheduler releases it.
func Yield(kind, arg string) {
	curMu.RLock()
	s := cur
	curMu.RUnlock()
	if s == nil {
		return
	}
	s.mu.Lock()
	name, ok := s.names[goid()]
	if !ok {
		s.mu.Unlock()
		return
	}
	w := &waiter{op: Op{G: name, Kind: kind, Arg: arg}, resume: make(chan struct{})}
	s.parked[name] = w
	s.mu.Unlock()
	select {
	case s.events <- struct{}{}:
	default:
	}
	<-w.resume
}

// Pending returns what goroutine g is parked on, whether it is parked, and whether it is done.
func (s *Scheduler) Pending(g string) (Op, bool, bool) {
	s.mu.Lock()
	defer s.mu.Unlock()
	if s.done[g] {
		return Op{}, false, true
	}
	if w, ok := s.parked[g]; ok {
		return w.op, true, false
	}
	return Op{}, false, false
}

// Wait blocks until something changes (a goroutine parks or finishes).
func (s *Scheduler) Wait() { <-s.events }

// Release lets goroutine g perform its pending primitive; the caller must then wait until g parks
// again or finishes before releasing anything else (one goroutine runs at a time).
func (s *Scheduler) Release(g string) {
	s.mu.Lock()
	w := s.parked[g]
	delete(s.parked, g)
	if w != nil {
		s.Log = append(s.Log, w.op)
	}
	s.mu.Unlock()
	if w != nil {
		close(w.resume)
	}
}
