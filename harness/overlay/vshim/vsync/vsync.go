//go:build verif

// Package vsync stands in for "sync" in the instrumented copy of package snaps (imports are
// rewritten at check time, DESIGN.md §5.2). RWMutex operations are yield points; plain mutexes
// (registries, counters) protect no file operation and pass through.
package vsync

import (
	"fmt"
	"sync"

	"github.com/gkampitakis/go-snaps/vshim/gate"
)

type (
	Mutex     = sync.Mutex
	WaitGroup = sync.WaitGroup
	Once      = sync.Once
	Map       = sync.Map
	Pool      = sync.Pool
	Cond      = sync.Cond
	Locker    = sync.Locker
)

func NewCond(l Locker) *Cond { return sync.NewCond(l) }

type RWMutex struct {
	mu sync.RWMutex
	n  int
}

var (
	idMu  sync.Mutex
	idSeq int
)

// id numbers the RWMutex instances in order of first use ("rw1" is the lock the first gated
// operation touches); the scheduler keeps one lock picture per id.
func (m *RWMutex) id() string {
	idMu.Lock()
	if m.n == 0 {
		idSeq++
		m.n = idSeq
	}
	n := m.n
	idMu.Unlock()
	return fmt.Sprintf("rw%d", n)
}

// Lock is two yield points, as in the runtime: the writer first announces itself (from then on
// new readers wait, which is what makes a re-entrant RLock deadlock-prone), then acquires.
func (m *RWMutex) Lock()    { gate.Yield("LockReq", m.id()); gate.Yield("Lock", m.id()); m.mu.Lock() }
func (m *RWMutex) Unlock()  { gate.Yield("Unlock", m.id()); m.mu.Unlock() }
func (m *RWMutex) RLock()   { gate.Yield("RLock", m.id()); m.mu.RLock() }
func (m *RWMutex) RUnlock() { gate.Yield("RUnlock", m.id()); m.mu.RUnlock() }
func (m *RWMutex) TryLock() bool {
	gate.Yield("TryLock", m.id())
	return m.mu.TryLock()
}
func (m *RWMutex) TryRLock() bool {
	gate.Yield("TryRLock", m.id())
	return m.mu.TryRLock()
}
func (m *RWMutex) RLocker() sync.Locker { return m.mu.RLocker() }
