//go:build verif

// Package vos stands in for "os" in the instrumented copy of package snaps (DESIGN.md §5.2):
// every file-system primitive yields to the scheduler gate before it is performed.
package vos

import (
	"io/fs"
	"os"
	"path/filepath"
	"time"

	"github.com/gkampitakis/go-snaps/vshim/gate"
)

const (
	O_RDONLY = os.O_RDONLY
	O_WRONLY = os.O_WRONLY
	O_RDWR   = os.O_RDWR
	O_APPEND = os.O_APPEND
	O_CREATE = os.O_CREATE
	O_EXCL   = os.O_EXCL
	O_SYNC   = os.O_SYNC
	O_TRUNC  = os.O_TRUNC

	ModePerm      = os.ModePerm
	PathSeparator = os.PathSeparator
)

var (
	ErrNotExist = os.ErrNotExist
	ErrExist    = os.ErrExist
	Stdout      = os.Stdout
	Stderr      = os.Stderr
	Stdin       = os.Stdin
	Args        = os.Args
)

type (
	FileInfo  = os.FileInfo
	FileMode  = os.FileMode
	DirEntry  = os.DirEntry
	PathError = os.PathError
)

func base(p string) string { return filepath.Base(p) }

func Getenv(k string) string              { return os.Getenv(k) }
func LookupEnv(k string) (string, bool)   { return os.LookupEnv(k) }
func Getwd() (string, error)              { return os.Getwd() }
func IsNotExist(err error) bool           { return os.IsNotExist(err) }
func IsExist(err error) bool              { return os.IsExist(err) }
func Exit(code int)                       { os.Exit(code) }
func TempDir() string                     { return os.TempDir() }
func Stat(name string) (FileInfo, error)  { gate.Yield("StatPath", base(name)); return os.Stat(name) }
func Lstat(name string) (FileInfo, error) { gate.Yield("StatPath", base(name)); return os.Lstat(name) }
func ReadDir(name string) ([]DirEntry, error) {
	gate.Yield("ReadDir", base(name))
	return os.ReadDir(name)
}
func Remove(name string) error               { gate.Yield("Remove", base(name)); return os.Remove(name) }
func RemoveAll(name string) error            { gate.Yield("Remove", base(name)); return os.RemoveAll(name) }
func Rename(a, b string) error               { gate.Yield("Rename", base(a)+">"+base(b)); return os.Rename(a, b) }
func MkdirAll(p string, m FileMode) error    { gate.Yield("MkdirAll", base(p)); return os.MkdirAll(p, m) }
func Mkdir(p string, m FileMode) error       { gate.Yield("MkdirAll", base(p)); return os.Mkdir(p, m) }
func Chtimes(n string, a, m time.Time) error { return os.Chtimes(n, a, m) }
func MkdirTemp(d, p string) (string, error)  { return os.MkdirTemp(d, p) }

func ReadFile(name string) ([]byte, error) {
	gate.Yield("ReadAll", base(name))
	return os.ReadFile(name)
}

// WriteFile is open(O_TRUNC)+write: two observable steps
func WriteFile(name string, data []byte, perm FileMode) error {
	gate.Yield("CreateTrunc", base(name))
	f, err := os.OpenFile(name, os.O_WRONLY|os.O_CREATE|os.O_TRUNC, perm)
	if err != nil {
		return err
	}
	gate.Yield("Write", base(name))
	_, err = f.Write(data)
	if err1 := f.Close(); err1 != nil && err == nil {
		err = err1
	}
	return err
}

type File struct {
	f     *os.File
	name  string
	fresh bool // no Read since open/seek: the next Read is the scan of the whole content
}

func wrap(f *os.File, err error, name string) (*File, error) {
	if err != nil {
		return nil, err
	}
	return &File{f: f, name: base(name), fresh: true}, nil
}

func OpenFile(name string, flag int, perm FileMode) (*File, error) {
	kind := "OpenRW"
	switch {
	case flag&os.O_APPEND != 0:
		kind = "OpenAppend"
	case flag&os.O_TRUNC != 0:
		kind = "CreateTrunc"
	case flag&(os.O_WRONLY|os.O_RDWR) == 0:
		kind = "OpenRead"
	}
	gate.Yield(kind, base(name))
	f, err := os.OpenFile(name, flag, perm)
	return wrap(f, err, name)
}

func Open(name string) (*File, error) {
	gate.Yield("OpenRead", base(name))
	f, err := os.Open(name)
	return wrap(f, err, name)
}

func Create(name string) (*File, error) {
	gate.Yield("CreateTrunc", base(name))
	f, err := os.Create(name)
	return wrap(f, err, name)
}

func CreateTemp(dir, pattern string) (*File, error) {
	gate.Yield("CreateTemp", pattern)
	f, err := os.CreateTemp(dir, pattern)
	if err != nil {
		return nil, err
	}
	return &File{f: f, name: base(f.Name()), fresh: true}, nil
}

func (f *File) Name() string { return f.f.Name() }
func (f *File) Fd() uintptr  { return f.f.Fd() }

func (f *File) Read(p []byte) (int, error) {
	if f.fresh {
		f.fresh = false
		gate.Yield("ScanAll", f.name)
	}
	return f.f.Read(p)
}
func (f *File) Write(p []byte) (int, error) { gate.Yield("Write", f.name); return f.f.Write(p) }
func (f *File) WriteString(s string) (int, error) {
	gate.Yield("Write", f.name)
	return f.f.WriteString(s)
}
func (f *File) WriteAt(p []byte, off int64) (int, error) {
	gate.Yield("Write", f.name)
	return f.f.WriteAt(p, off)
}
func (f *File) Seek(off int64, whence int) (int64, error) {
	gate.Yield("Seek", f.name)
	f.fresh = true
	return f.f.Seek(off, whence)
}
func (f *File) Truncate(n int64) error            { gate.Yield("Truncate", f.name); return f.f.Truncate(n) }
func (f *File) Close() error                      { gate.Yield("Close", f.name); return f.f.Close() }
func (f *File) Sync() error                       { gate.Yield("Sync", f.name); return f.f.Sync() }
func (f *File) Stat() (FileInfo, error)           { return f.f.Stat() }
func (f *File) Chmod(m FileMode) error            { return f.f.Chmod(m) }
func (f *File) ReadDir(n int) ([]DirEntry, error) { return f.f.ReadDir(n) }

var _ fs.FileInfo = FileInfo(nil)
