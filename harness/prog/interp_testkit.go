// Package vprog is the scripted driver of the go-snaps verification harness (DESIGN.md §4.1).
//
// It is copied to a scratch directory and compiled against /repo's working tree. Test bodies are
// interpreted from a JSON script; every public go-snaps call is followed by one ndjson event
// carrying what the test object saw and the projected state of the watched directories.
//
// This file is deliberately NOT a _test.go file: go-snaps locates snapshots from the first
// _test.go frame on the stack, so the interpreter must not look like a test file, and closures
// handed to t.Run are created in main_test.go (see DESIGN.md §4.1).  Its NAME, however, contains
// "_test" on purpose (interp_testkit.go): the rule is "base name ends in _test.go", and a rule
// loosened to "contains _test" (seeded change R6-C11-A) would take this file for the test file,
// which every check then reports as a wrong location.
package vprog

import (
	"encoding/base64"
	"encoding/json"
	"errors"
	"fmt"
	"os"
	"path/filepath"
	"runtime"
	"sort"
	"strings"
	"sync"
	"testing"
	"time"

	"github.com/gkampitakis/go-snaps/match"
	"github.com/gkampitakis/go-snaps/snaps"
)

// ---------------------------------------------------------------- script

type Script struct {
	Trace   string            `json:"trace"`
	Watch   []string          `json:"watch"`   // absolute directories projected into events
	Configs map[string]*Cfg   `json:"configs"` // named option sets
	Hists   []*Hist           `json:"hists"`   // bulk mode: independent histories, fake test objects
	Tests   map[string]*TDef  `json:"tests"`   // real mode: top-level test name -> definition
	Clean   *CleanDef         `json:"clean"`   // real mode: call snaps.Clean in TestMain
	State   string            `json:"state"`   // "call": state after every call, "end": after tests/clean only
	Extra   map[string]string `json:"extra"`
}

type Cfg struct {
	Dir      *string  `json:"dir"`
	Filename *string  `json:"filename"`
	Ext      *string  `json:"ext"`
	Update   *bool    `json:"update"`
	JSON     *JSONCfg `json:"json"`
	House    string   `json:"house,omitempty"`
}

type JSONCfg struct {
	Width    int    `json:"width"`
	Indent   string `json:"indent"`
	SortKeys bool   `json:"sortKeys"`
}

type Hist struct {
	H     string  `json:"h"`
	Watch string  `json:"watch"` // directory projected for this history
	Steps []*Step `json:"steps"`
}

type TDef struct {
	Execs [][]*Step `json:"execs"` // step list per execution index (-count); the last one repeats
}

type CleanDef struct {
	Sort  bool `json:"sort"`
	NoOpt bool `json:"noopt"` // call Clean(m) without options
	Twice bool `json:"twice"`
}

type Step struct {
	ID       string     `json:"id"` // echoed in the event, joins the event with the script
	Op       string     `json:"op"` // match noargs sub skip begin end gosub
	API      string     `json:"api"`
	Cfg      string     `json:"cfg"` // "" = package level function
	Val      *Val       `json:"val"`
	Matchers []*Matcher `json:"matchers"`
	Name     string     `json:"name"`
	Parallel bool       `json:"parallel"`
	Steps    []*Step    `json:"steps"`
	Kind     string     `json:"kind"`
	Via      string     `json:"via"`
	Fresh    bool       `json:"fresh"`    // build a new Config from the named options for this call
	Gs       []*ConcG   `json:"gs"`       // conc: goroutines
	Schedule []string   `json:"schedule"` // conc: goroutine to release at each yield point
}

// ConcG is one goroutine of a "conc" step: a test (fake test object) executing calls.
type ConcG struct {
	G     string  `json:"g"`
	Test  string  `json:"test"`
	Steps []*Step `json:"steps"`
}

type Val struct {
	K    string `json:"k"` // str bytes go multi
	B64  string `json:"b64"`
	Name string `json:"name"`
	Vals []*Val `json:"vals"`
}

type Matcher struct {
	M           string          `json:"m"` // any type custom
	Paths       []string        `json:"paths"`
	Placeholder json.RawMessage `json:"placeholder"`
	HasPH       bool            `json:"hasph"`
	EOMP        *bool           `json:"eomp"`
	T           string          `json:"t"`
	Ret         json.RawMessage `json:"ret"`
	Err         string          `json:"err"`
	Shared      string          `json:"shared"` // non-empty: ONE matcher object per key, reused across calls
}

var sharedAny = map[string]any{}

// ---------------------------------------------------------------- trace

type Event struct {
	Seq   int               `json:"seq"`
	Ev    string            `json:"ev"`
	H     string            `json:"h,omitempty"`
	ID    string            `json:"id,omitempty"`
	T     string            `json:"t,omitempty"`
	Exec  int               `json:"exec,omitempty"`
	Errs  []string          `json:"errs,omitempty"` // base64
	Logs  []string          `json:"logs,omitempty"` // base64
	Out   string            `json:"out,omitempty"`  // base64 stdout of Clean
	Env   map[string]string `json:"env,omitempty"`
	Dirs  []*DirState       `json:"dirs,omitempty"`
	Buf   string            `json:"buf,omitempty"` // base64 caller buffer after the call
	Note  string            `json:"note,omitempty"`
	Panic string            `json:"panic,omitempty"`
}

type DirState struct {
	Dir     string       `json:"dir"`
	Missing bool         `json:"missing,omitempty"`
	Files   []*FileState `json:"files"`
}

type FileState struct {
	P       string `json:"p"` // path relative to Dir
	IsDir   bool   `json:"isdir,omitempty"`
	B64     string `json:"b64,omitempty"`
	Touched bool   `json:"touched,omitempty"` // mtime differs from the normalised epoch
}

var epoch = time.Unix(978307200, 0) // 2001-01-01, every observed file is reset to this mtime

type tracer struct {
	mu  sync.Mutex
	f   *os.File
	seq int
}

func (tr *tracer) emit(e *Event) {
	tr.mu.Lock()
	defer tr.mu.Unlock()
	tr.seq++
	e.Seq = tr.seq
	b, _ := json.Marshal(e)
	tr.f.Write(append(b, '\n'))
}

func b64(s string) string { return base64.StdEncoding.EncodeToString([]byte(s)) }
func unb64(s string) []byte {
	b, err := base64.StdEncoding.DecodeString(s)
	if err != nil {
		panic(err)
	}
	return b
}

// captureDir projects a directory: every entry (recursively), bytes of regular files, and whether
// the file was written since the last capture (mtime != epoch). After capturing, mtimes are reset.
func captureDir(dir string) *DirState {
	ds := &DirState{Dir: dir, Files: []*FileState{}}
	if _, err := os.Stat(dir); err != nil {
		ds.Missing = true
		return ds
	}
	filepath.Walk(dir, func(p string, info os.FileInfo, err error) error {
		if err != nil || p == dir {
			return nil
		}
		rel, _ := filepath.Rel(dir, p)
		if info.Mode()&os.ModeSymlink != 0 {
			// a symbolic link is observed as what it points to (content and modification time)
			if st, err := os.Stat(p); err == nil {
				info = st
			}
		}
		if info.IsDir() {
			ds.Files = append(ds.Files, &FileState{P: rel, IsDir: true})
			return nil
		}
		b, _ := os.ReadFile(p)
		fs := &FileState{P: rel, B64: base64.StdEncoding.EncodeToString(b)}
		if !info.ModTime().Equal(epoch) {
			fs.Touched = true
			os.Chtimes(p, epoch, epoch)
		}
		ds.Files = append(ds.Files, fs)
		return nil
	})
	sort.Slice(ds.Files, func(i, j int) bool { return ds.Files[i].P < ds.Files[j].P })
	return ds
}

// ---------------------------------------------------------------- test object

// recT is the test object handed to go-snaps. In real mode it embeds the real *testing.T for
// Name/Cleanup/Skip (so ordinal reset and skipping are the real runner's); Error and Log are
// recorded instead of failing the driver.
type recT struct {
	par      bool // inside a subtree of parallel subtests: the directory is shared with running siblings
	real     *testing.T
	name     string
	mu       sync.Mutex
	errs     []string
	logs     []string
	cleanups []func()
	skipped  bool
}

func (r *recT) Helper() {
	if r.real != nil {
		r.real.Helper()
	}
}
func (r *recT) Name() string {
	if r.real != nil {
		return r.real.Name()
	}
	return r.name
}
func (r *recT) Error(a ...any) {
	r.mu.Lock()
	r.errs = append(r.errs, fmt.Sprint(a...))
	r.mu.Unlock()
}
func (r *recT) Log(a ...any) {
	r.mu.Lock()
	r.logs = append(r.logs, fmt.Sprint(a...))
	r.mu.Unlock()
}
func (r *recT) Cleanup(f func()) {
	if r.real != nil {
		r.real.Cleanup(f)
		return
	}
	r.mu.Lock()
	r.cleanups = append(r.cleanups, f)
	r.mu.Unlock()
}
func (r *recT) Skip(a ...any) {
	r.skipped = true
	if r.real != nil {
		r.real.SkipNow()
	}
}
func (r *recT) Skipf(f string, a ...any) {
	r.skipped = true
	if r.real != nil {
		r.real.SkipNow()
	}
}
func (r *recT) SkipNow() {
	r.skipped = true
	if r.real != nil {
		r.real.SkipNow()
	}
}
func (r *recT) take() (errs, logs []string) {
	r.mu.Lock()
	defer r.mu.Unlock()
	for _, e := range r.errs {
		errs = append(errs, b64(e))
	}
	for _, l := range r.logs {
		logs = append(logs, b64(l))
	}
	r.errs, r.logs = nil, nil
	return
}
func (r *recT) runCleanups() {
	r.mu.Lock()
	cl := r.cleanups
	r.cleanups = nil
	r.mu.Unlock()
	for i := len(cl) - 1; i >= 0; i-- {
		cl[i]()
	}
}

// ---------------------------------------------------------------- interpreter

type Interp struct {
	S    *Script
	tr   *tracer
	cfgs map[string]*snaps.Config
	mu   sync.Mutex
	exec map[string]int // executions per top-level test name
	// RunSub is provided by main_test.go so that subtest closures live in a _test.go file.
	RunSub func(t *testing.T, name string, f func(t *testing.T)) bool
	// Call shapes implemented in _test.go files (C11).
	Shapes map[string]func(call func())
	// Spawn starts a goroutine whose root frame lives in a _test.go file (as the goroutines of
	// parallel tests do), provided by main_test.go.
	Spawn func(f func())
}

func Load() (*Interp, error) {
	p := os.Getenv("VERIF_SCRIPT")
	if p == "" {
		return nil, nil
	}
	b, err := os.ReadFile(p)
	if err != nil {
		return nil, err
	}
	s := &Script{}
	if err := json.Unmarshal(b, s); err != nil {
		return nil, err
	}
	f, err := os.OpenFile(s.Trace, os.O_CREATE|os.O_WRONLY|os.O_APPEND, 0o644)
	if err != nil {
		return nil, err
	}
	in := &Interp{S: s, tr: &tracer{f: f}, cfgs: map[string]*snaps.Config{}, exec: map[string]int{}}
	// option values shared between Configs ("house" options) are created once
	house := map[string][]func(*snaps.Config){}
	names := make([]string, 0, len(s.Configs))
	for name := range s.Configs {
		names = append(names, name)
	}
	sort.Strings(names)
	for _, name := range names {
		if h := s.Configs[name].House; h != "" && house[h] == nil {
			house[h] = cfgOpts(s.Configs[h])
		}
	}
	for _, name := range names {
		c := s.Configs[name]
		switch {
		case c.House != "":
			opts := append([]func(*snaps.Config){}, house[c.House]...)
			if c.JSON != nil {
				opts = append(opts, snaps.JSON(snaps.JSONConfig{Width: c.JSON.Width, Indent: c.JSON.Indent, SortKeys: c.JSON.SortKeys}))
			}
			in.cfgs[name] = snaps.WithConfig(opts...)
		case house[name] != nil:
			in.cfgs[name] = snaps.WithConfig(house[name]...)
		default:
			in.cfgs[name] = buildCfg(c)
		}
	}
	return in, nil
}

func buildCfg(c *Cfg) *snaps.Config { return snaps.WithConfig(cfgOpts(c)...) }

func cfgOpts(c *Cfg) []func(*snaps.Config) {
	var opts []func(*snaps.Config)
	if c.Dir != nil {
		opts = append(opts, snaps.Dir(*c.Dir))
	}
	if c.Filename != nil {
		opts = append(opts, snaps.Filename(*c.Filename))
	}
	if c.Ext != nil {
		opts = append(opts, snaps.Ext(*c.Ext))
	}
	if c.Update != nil {
		opts = append(opts, snaps.Update(*c.Update))
	}
	if c.JSON != nil {
		opts = append(opts, snaps.JSON(snaps.JSONConfig{Width: c.JSON.Width, Indent: c.JSON.Indent, SortKeys: c.JSON.SortKeys}))
	}
	return opts
}

func (in *Interp) Close() { in.tr.f.Close() }

func (in *Interp) states(h *Hist) []*DirState {
	var out []*DirState
	if h != nil && h.Watch != "" {
		return append(out, captureDir(h.Watch))
	}
	for _, d := range in.S.Watch {
		out = append(out, captureDir(d))
	}
	return out
}

func (in *Interp) Start() {
	env := map[string]string{}
	for _, k := range []string{"CI", "GITHUB_ACTIONS", "UPDATE_SNAPS", "NO_COLOR", "GOFLAGS", "BUILD_ID", "BUILD_NUMBER", "TRAVIS", "_"} {
		if v, ok := os.LookupEnv(k); ok {
			env[k] = v
		}
	}
	wd, _ := os.Getwd()
	env["@wd"] = wd
	env["@args"] = strings.Join(os.Args[1:], " ")
	in.tr.emit(&Event{Ev: "start", Env: env, Dirs: in.states(nil)})
}

// Bulk runs all bulk histories with fake test objects; called from TestBulk (a _test.go frame).
func (in *Interp) Bulk() {
	for _, h := range in.S.Hists {
		in.runHist(h)
	}
}

func (in *Interp) runHist(h *Hist) {
	live := map[string]*recT{}
	in.tr.emit(&Event{Ev: "hstart", H: h.H, Dirs: in.states(h)})
	for _, st := range h.Steps {
		switch st.Op {
		case "begin":
			live[st.Name] = &recT{name: st.Name}
			in.tr.emit(&Event{Ev: "begin", H: h.H, ID: st.ID, T: st.Name})
		case "conc":
			in.runConc(h, st)
		case "end":
			if t := live[st.Name]; t != nil {
				t.runCleanups()
				delete(live, st.Name)
			}
			in.tr.emit(&Event{Ev: "end", H: h.H, ID: st.ID, T: st.Name, Dirs: in.states(h)})
		default:
			t := live[st.Name]
			if t == nil {
				t = &recT{name: st.Name}
				live[st.Name] = t
			}
			in.step(h, t, st, nil)
		}
	}
}

// RunTest interprets the definition of a real top-level test.
func (in *Interp) RunTest(t *testing.T) {
	name := t.Name()
	in.mu.Lock()
	in.exec[name]++
	ex := in.exec[name]
	in.mu.Unlock()
	def := in.S.Tests[name]
	in.tr.emit(&Event{Ev: "begin", T: name, Exec: ex})
	var steps []*Step
	if def != nil && len(def.Execs) > 0 {
		i := ex - 1
		if i >= len(def.Execs) {
			i = len(def.Execs) - 1
		}
		steps = def.Execs[i]
	}
	note := ""
	if hasParallel(steps) {
		note = "resync" // parallel subtests wrote unobserved: this event re-reads the directory
	}
	// registered first, therefore run last: after go-snaps' own cleanups
	t.Cleanup(func() { in.tr.emit(&Event{Ev: "end", T: name, Exec: ex, Note: note, Dirs: in.statesIf("end")}) })
	in.runSteps(t, steps, false)
}

func hasParallel(steps []*Step) bool {
	for _, st := range steps {
		if st.Op == "sub" && (st.Parallel || hasParallel(st.Steps)) {
			return true
		}
	}
	return false
}

func (in *Interp) statesIf(kind string) []*DirState {
	if in.S.State == "call" || kind == "end" || kind == "clean" {
		return in.states(nil)
	}
	return nil
}

func (in *Interp) runSteps(t *testing.T, steps []*Step, par bool) {
	rt := &recT{real: t, par: par}
	for _, st := range steps {
		switch st.Op {
		case "sub":
			st := st
			in.RunSub(t, st.Name, func(t *testing.T) {
				name := t.Name()
				cpar := par || st.Parallel
				in.tr.emit(&Event{Ev: "begin", T: name, ID: st.ID})
				t.Cleanup(func() {
					ev := &Event{Ev: "end", T: name, ID: st.ID}
					if !cpar {
						ev.Dirs = in.statesIf("end")
						if hasParallel(st.Steps) {
							ev.Note = "resync"
						}
					}
					in.tr.emit(ev)
				})
				if st.Parallel {
					t.Parallel()
				}
				in.runSteps(t, st.Steps, cpar)
			})
		default:
			in.step(nil, rt, st, t)
		}
	}
}

func (in *Interp) cfg(st *Step) *snaps.Config {
	if st.Cfg == "" {
		return nil
	}
	if st.Fresh {
		return buildCfg(in.S.Configs[st.Cfg])
	}
	c := in.cfgs[st.Cfg]
	if c == nil {
		panic("unknown config " + st.Cfg)
	}
	return c
}

func (in *Interp) step(h *Hist, t *recT, st *Step, real *testing.T) {
	hid := ""
	if h != nil {
		hid = h.H
	}
	ev := &Event{H: hid, ID: st.ID, T: t.Name()}
	switch st.Op {
	case "skip":
		ev.Ev = "skip"
		// the event must be written before the real SkipNow unwinds the goroutine
		func() {
			defer func() {
				ev.Errs, ev.Logs = t.take()
				in.tr.emit(ev)
			}()
			switch st.Kind {
			case "Skipf":
				snaps.Skipf(t, "skipped %s", "by script")
			case "SkipNow":
				snaps.SkipNow(t)
			default:
				snaps.Skip(t, "skipped by script")
			}
		}()
		return
	case "noargs":
		ev.Ev = "noargs"
		if c := in.cfg(st); c != nil {
			c.MatchSnapshot(t)
		} else {
			snaps.MatchSnapshot(t)
		}
	case "mdirect":
		// the matchers' public methods applied directly to the caller's bytes (C15)
		ev.Ev = "mdirect"
		in0 := unb64(st.Val.B64)
		cur := append([]byte(nil), in0...)
		var names [][2]string
		func() {
			defer func() {
				if r := recover(); r != nil {
					ev.Panic = fmt.Sprint(r)
				}
			}()
			if st.API == "yaml" {
				for _, m := range yamlMatchers(st.Matchers) {
					out, errs := m.YAML(cur)
					for _, e := range errs {
						names = append(names, [2]string{e.Matcher, e.Path})
					}
					if len(errs) == 0 {
						cur = out
					}
				}
			} else {
				for _, m := range jsonMatchers(st.Matchers) {
					buf := append([]byte(nil), cur...) // what a caller would hand in
					keep := append([]byte(nil), buf...)
					out, errs := m.JSON(buf)
					for _, e := range errs {
						names = append(names, [2]string{e.Matcher, e.Path})
					}
					if string(buf) != string(keep) {
						ev.Note = "caller buffer modified"
					}
					if len(errs) == 0 {
						cur = append([]byte(nil), out...)
					}
				}
			}
		}()
		ev.Out = base64.StdEncoding.EncodeToString(cur)
		nb, _ := json.Marshal(names)
		ev.Buf = base64.StdEncoding.EncodeToString(nb)
		in.tr.emit(ev)
		return
	case "match":
		ev.Ev = "match"
		var buf []byte
		call := func() { buf = in.call(t, st) }
		func() {
			defer func() {
				if r := recover(); r != nil {
					ev.Panic = fmt.Sprint(r)
				}
			}()
			if sh := in.Shapes[st.Via]; sh != nil {
				sh(call)
			} else {
				call()
			}
		}()
		if buf != nil {
			ev.Buf = base64.StdEncoding.EncodeToString(buf)
		}
	default:
		panic("unknown op " + st.Op)
	}
	ev.Errs, ev.Logs = t.take()
	if (h != nil || in.S.State == "call") && !t.par {
		// (between parallel siblings a directory capture would show their writes as this call's)
		ev.Dirs = in.states(h)
	}
	in.tr.emit(ev)
}

// call performs one Match* call; for []byte inputs it returns the caller's buffer afterwards.
func (in *Interp) call(t *recT, st *Step) (buf []byte) {
	c := in.cfg(st)
	switch st.API {
	case "snapshot":
		vals := goVals(st.Val)
		if c != nil {
			c.MatchSnapshot(t, vals...)
		} else {
			snaps.MatchSnapshot(t, vals...)
		}
	case "ssnap":
		v := goVals(st.Val)[0]
		if c != nil {
			c.MatchStandaloneSnapshot(t, v)
		} else {
			snaps.MatchStandaloneSnapshot(t, v)
		}
	case "json", "sjson":
		v := goVals(st.Val)[0]
		if b, ok := v.([]byte); ok {
			buf = b
		}
		if b, ok := v.(json.RawMessage); ok {
			buf = b
		}
		ms := jsonMatchers(st.Matchers)
		switch {
		case st.API == "json" && c != nil:
			c.MatchJSON(t, v, ms...)
		case st.API == "json":
			snaps.MatchJSON(t, v, ms...)
		case c != nil:
			c.MatchStandaloneJSON(t, v, ms...)
		default:
			snaps.MatchStandaloneJSON(t, v, ms...)
		}
	case "yaml":
		v := goVals(st.Val)[0]
		if b, ok := v.([]byte); ok {
			buf = b
		}
		ms := yamlMatchers(st.Matchers)
		if c != nil {
			c.MatchYAML(t, v, ms...)
		} else {
			snaps.MatchYAML(t, v, ms...)
		}
	default:
		panic("unknown api " + st.API)
	}
	return buf
}

// ---------------------------------------------------------------- values

type inner struct {
	Name  string         `json:"name" yaml:"name"`
	Tags  []string       `json:"tags" yaml:"tags"`
	Attrs map[string]int `json:"attrs" yaml:"attrs"`
}

type outer struct {
	ID     int      `json:"id" yaml:"id"`
	Ratio  float64  `json:"ratio" yaml:"ratio"`
	OK     bool     `json:"ok" yaml:"ok"`
	In     inner    `json:"in" yaml:"in"`
	Ptr    *inner   `json:"ptr" yaml:"ptr"`
	List   []inner  `json:"list" yaml:"list"`
	Bytes  []byte   `json:"bytes" yaml:"bytes"`
	Iface  any      `json:"iface" yaml:"iface"`
	hidden int      //nolint
	Matrix [][2]int `json:"matrix" yaml:"matrix"`
}

// GoValues are the structured Go values a script can name. They format deterministically.
var GoValues = map[string]func() any{
	"int":    func() any { return 42 },
	"int2":   func() any { return 43 },
	"float":  func() any { return 3.5 },
	"bool":   func() any { return true },
	"nil":    func() any { return nil },
	"slice":  func() any { return []int{1, 2, 3} },
	"slice2": func() any { return []int{1, 2, 4} },
	"strs":   func() any { return []string{"a", "---", "b c"} },
	"map":    func() any { return map[string]int{"b": 2, "a": 1, "c": 3} },
	"map2":   func() any { return map[string]int{"b": 2, "a": 1, "c": 4} },
	"mapany": func() any { return map[string]any{"z": []any{1, "x", nil}, "a": map[string]any{"k": true}} },
	"inner":  func() any { return inner{Name: "n", Tags: []string{"t1", "t2"}, Attrs: map[string]int{"x": 1, "y": 2}} },
	"outer": func() any {
		return outer{ID: 7, Ratio: 0.25, OK: true, In: inner{Name: "in"}, Ptr: &inner{Name: "p", Tags: []string{}},
			List: []inner{{Name: "l1"}, {Name: "l2", Attrs: map[string]int{"q": 9}}}, Bytes: []byte("hi"), Iface: 1.5, Matrix: [][2]int{{1, 2}, {3, 4}}}
	},
	"outer2": func() any {
		return outer{ID: 8, Ratio: 0.25, OK: true, In: inner{Name: "in"}, Ptr: &inner{Name: "p", Tags: []string{}},
			List: []inner{{Name: "l1"}, {Name: "l2", Attrs: map[string]int{"q": 9}}}, Bytes: []byte("hi"), Iface: 1.5, Matrix: [][2]int{{1, 2}, {3, 4}}}
	},
	"ptr":   func() any { return &inner{Name: "pp"} },
	"err":   func() any { return errors.New("boom") },
	"chan":  func() any { return make(chan int) }, // not marshalable: JSON/YAML must fail
	"multi": func() any { return "line1\nline2\n" },
}

func goVals(v *Val) []any {
	if v == nil {
		return []any{nil}
	}
	switch v.K {
	case "str":
		return []any{string(unb64(v.B64))}
	case "bytes":
		return []any{unb64(v.B64)}
	case "go":
		f := GoValues[v.Name]
		if f == nil {
			panic("unknown go value " + v.Name)
		}
		return []any{f()}
	case "rawmsg":
		return []any{json.RawMessage(unb64(v.B64))}
	case "gojson":
		// a marshalable Go value built from a JSON text (numbers kept as json.Number)
		dec := json.NewDecoder(strings.NewReader(string(unb64(v.B64))))
		dec.UseNumber()
		var x any
		if err := dec.Decode(&x); err != nil {
			panic(err)
		}
		return []any{x}
	case "multi":
		var out []any
		for _, x := range v.Vals {
			out = append(out, goVals(x)...)
		}
		return out
	}
	panic("unknown value kind " + v.K)
}

func rawToAny(r json.RawMessage) any {
	var v any
	if len(r) == 0 {
		return nil
	}
	if err := json.Unmarshal(r, &v); err != nil {
		panic(err)
	}
	return v
}

// statementForm: half of the matchers get their options through separate statements
// (m := match.Any(..); m.ErrOnMissingPath(false)) instead of a call chain; both forms are documented use
func statementForm(m *Matcher) bool {
	n := 0
	for _, p := range m.Paths {
		n += len(p)
	}
	return n%2 == 1
}

func customCB(m *Matcher) func(any) (any, error) {
	return func(val any) (any, error) {
		runtime.Gosched() // user callbacks take time: let other goroutines in
		if m.Err != "" {
			return nil, errors.New(m.Err)
		}
		if m.T != "" && fmt.Sprintf("%T", val) != m.T {
			return nil, fmt.Errorf("custom: expected %s got %T", m.T, val)
		}
		if r, ok := rawToAny(m.Ret).(string); ok && strings.HasPrefix(r, "@mask:") {
			// a callback that edits the value it was given and hands the same object back
			if mp, ok := val.(map[string]any); ok {
				mp[strings.TrimPrefix(r, "@mask:")] = "***"
				return mp, nil
			}
			return nil, fmt.Errorf("custom: expected an object, got %T", val)
		}
		return rawToAny(m.Ret), nil
	}
}

func jsonMatchers(ms []*Matcher) []match.JSONMatcher {
	var out []match.JSONMatcher
	for _, m := range ms {
		switch m.M {
		case "any":
			if m.Shared != "" {
				if x, ok := sharedAny[m.Shared]; ok {
					out = append(out, x.(match.JSONMatcher))
					continue
				}
			}
			a := match.Any(m.Paths...)
			if statementForm(m) {
				// options set by separate statements on the matcher value, results ignored
				if m.HasPH {
					a.Placeholder(rawToAny(m.Placeholder))
				}
				if m.EOMP != nil {
					a.ErrOnMissingPath(*m.EOMP)
				}
			} else {
				if m.HasPH {
					a = a.Placeholder(rawToAny(m.Placeholder))
				}
				if m.EOMP != nil {
					a = a.ErrOnMissingPath(*m.EOMP)
				}
			}
			if m.Shared != "" {
				sharedAny[m.Shared] = a
			}
			out = append(out, a)
		case "type":
			out = append(out, typeMatcherJSON(m))
		case "custom":
			c := match.Custom(m.Paths[0], customCB(m))
			if m.EOMP != nil {
				if statementForm(m) {
					c.ErrOnMissingPath(*m.EOMP)
				} else {
					c = c.ErrOnMissingPath(*m.EOMP)
				}
			}
			out = append(out, c)
		default:
			panic("unknown matcher " + m.M)
		}
	}
	return out
}

func yamlMatchers(ms []*Matcher) []match.YAMLMatcher {
	var out []match.YAMLMatcher
	for _, m := range ms {
		switch m.M {
		case "any":
			a := match.Any(m.Paths...)
			if statementForm(m) {
				// options set by separate statements on the matcher value, results ignored
				if m.HasPH {
					a.Placeholder(rawToAny(m.Placeholder))
				}
				if m.EOMP != nil {
					a.ErrOnMissingPath(*m.EOMP)
				}
			} else {
				if m.HasPH {
					a = a.Placeholder(rawToAny(m.Placeholder))
				}
				if m.EOMP != nil {
					a = a.ErrOnMissingPath(*m.EOMP)
				}
			}
			out = append(out, a)
		case "type":
			out = append(out, typeMatcherYAML(m))
		case "custom":
			c := match.Custom(m.Paths[0], customCB(m))
			if m.EOMP != nil {
				if statementForm(m) {
					c.ErrOnMissingPath(*m.EOMP)
				} else {
					c = c.ErrOnMissingPath(*m.EOMP)
				}
			}
			out = append(out, c)
		default:
			panic("unknown matcher " + m.M)
		}
	}
	return out
}

type bothMatcher interface {
	match.JSONMatcher
	match.YAMLMatcher
}

func typeM(m *Matcher) bothMatcher {
	eomp := true
	if m.EOMP != nil {
		eomp = *m.EOMP
	}
	switch m.T {
	case "string":
		return match.Type[string](m.Paths...).ErrOnMissingPath(eomp)
	case "float64":
		return match.Type[float64](m.Paths...).ErrOnMissingPath(eomp)
	case "bool":
		return match.Type[bool](m.Paths...).ErrOnMissingPath(eomp)
	case "uint64":
		return match.Type[uint64](m.Paths...).ErrOnMissingPath(eomp)
	case "map":
		return match.Type[map[string]any](m.Paths...).ErrOnMissingPath(eomp)
	case "slice":
		return match.Type[[]any](m.Paths...).ErrOnMissingPath(eomp)
	case "int":
		return match.Type[int](m.Paths...).ErrOnMissingPath(eomp)
	}
	panic("unknown type " + m.T)
}

func typeMatcherJSON(m *Matcher) match.JSONMatcher { return typeM(m) }
func typeMatcherYAML(m *Matcher) match.YAMLMatcher { return typeM(m) }

// Describe writes the standard JSON encoding of every named Go value (the harness derives the
// identity of JSON documents from it, C14).
func Describe(path string) {
	out := map[string]string{}
	for name, f := range GoValues {
		b, err := json.Marshal(f())
		if err == nil {
			out[name] = string(b)
		}
	}
	b, _ := json.Marshal(out)
	os.WriteFile(path, b, 0o644)
}
