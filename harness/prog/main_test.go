package vprog

import (
	"encoding/base64"
	"flag"
	"io"
	"os"
	"testing"

	"github.com/gkampitakis/go-snaps/snaps"
)

var in *Interp

// the flags many projects declare for refreshing golden files; go-snaps must not react to them
var (
	_ = flag.Bool("update", false, "update golden files (host project's own flag)")
	_ = flag.Bool("u", false, "short form")
)

func TestMain(m *testing.M) {
	if p := os.Getenv("VERIF_DESCRIBE"); p != "" {
		Describe(p)
		os.Exit(0)
	}
	var err error
	in, err = Load()
	if err != nil {
		println("verif driver: " + err.Error())
		os.Exit(3)
	}
	if in == nil {
		os.Exit(m.Run())
	}
	in.RunSub = func(t *testing.T, name string, f func(t *testing.T)) bool {
		return t.Run(name, func(t *testing.T) { f(t) })
	}
	in.Shapes = shapes
	in.Spawn = func(f func()) { go func() { f() }() }
	in.Start()
	code := m.Run()
	if in.S.Clean != nil {
		n := 1
		if in.S.Clean.Twice {
			n = 2
		}
		for i := 0; i < n; i++ {
			out := captureStdout(func() {
				if in.S.Clean.NoOpt {
					snaps.Clean(m)
				} else {
					snaps.Clean(m, snaps.CleanOpts{Sort: in.S.Clean.Sort})
				}
			})
			in.tr.emit(&Event{Ev: "clean", Out: base64.StdEncoding.EncodeToString(out), Dirs: in.states(nil)})
		}
	}
	in.tr.emit(&Event{Ev: "exit", Note: itoa(code)})
	in.Close()
	os.Exit(0)
}

func itoa(i int) string {
	if i == 0 {
		return "0"
	}
	return "nonzero"
}

func captureStdout(f func()) []byte {
	old := os.Stdout
	r, w, err := os.Pipe()
	if err != nil {
		panic(err)
	}
	os.Stdout = w
	done := make(chan []byte)
	go func() {
		b, _ := io.ReadAll(r)
		done <- b
	}()
	func() {
		defer func() {
			os.Stdout = old
			w.Close()
		}()
		f()
	}()
	return <-done
}

func run(t *testing.T) {
	if in == nil {
		t.Skip("no script")
	}
	in.RunTest(t)
}

// Top-level tests; names are chosen so that prefix pairs and digit suffixes exist.
func TestA(t *testing.T)   { run(t) }
func TestAB(t *testing.T)  { run(t) }
func TestA1(t *testing.T)  { run(t) }
func TestB(t *testing.T)   { run(t) }
func TestB2(t *testing.T)  { run(t) }
func TestC(t *testing.T)   { run(t) }
func TestZ(t *testing.T)   { run(t) }
func Test1(t *testing.T)   { run(t) }
func TestA_x(t *testing.T) { run(t) }

// TestBulk runs the bulk histories with fake test objects.
func TestBulk(t *testing.T) {
	if in == nil {
		t.Skip("no script")
	}
	in.Bulk()
}

// call shapes living in a test file (C11)
func helper1(call func()) { call() }
func helper2(call func()) { helper1(call) }
func helper3(call func()) { helper2(call) }

var shapes = map[string]func(call func()){
	"helper1":  helper1,
	"helper2":  helper2,
	"helper3":  helper3,
	"closure":  func(call func()) { func() { call() }() },
	"nontest":  nonTestHelper,
	"nontest2": func(call func()) { nonTestHelper(func() { helper1(call) }) },
	"deep40":   func(call func()) { nonTestDeep(40, call) },
	"deep100":  func(call func()) { helper2(func() { nonTestDeep(100, call) }) },
}
