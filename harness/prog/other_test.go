package vprog

// A helper living in ANOTHER test file of the package: go-snaps files a call under the innermost
// *_test.go frame, so calls made through it belong to other_test.snap (C11, C12).
func otherFileHelper(call func()) { call() }

func init() { shapes["otherfile"] = otherFileHelper }
