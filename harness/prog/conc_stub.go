//go:build !verif

package vprog

func (in *Interp) runConc(h *Hist, st *Step) { panic("conc steps need the gated build (-tags verif)") }
