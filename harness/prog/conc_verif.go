//go:build verif

package vprog

import (
	"encoding/json"
	"sort"
	"time"

	"github.com/gkampitakis/go-snaps/vshim/gate"
)

// runConc executes the goroutines of a "conc" step under the scheduler gate (DESIGN.md §5.2):
// exactly one goroutine runs between two yield points; the order is the given schedule, then a
// non-preemptive default policy. The primitive log with the enabled set at every step is emitted.
func (in *Interp) runConc(h *Hist, st *Step) {
	s := gate.New()
	gate.Install(s)
	defer gate.Install(nil)
	names := []string{}
	for _, g := range st.Gs {
		names = append(names, g.G)
	}
	sort.Strings(names)
	for _, g := range st.Gs {
		g := g
		in.Spawn(func() {
			s.Register(g.G)
			defer s.Finish()
			t := &recT{name: g.Test}
			in.tr.emit(&Event{Ev: "begin", H: h.H, T: g.Test})
			for _, cs := range g.Steps {
				in.step(&Hist{H: h.H}, t, cs, nil)
			}
			t.runCleanups()
			in.tr.emit(&Event{Ev: "end", H: h.H, T: g.Test})
		})
	}
	deadline := time.Now().Add(20 * time.Second)
	settled := func(g string) bool {
		for {
			_, parked, done := s.Pending(g)
			if parked || done {
				return true
			}
			if time.Now().After(deadline) {
				return false
			}
			time.Sleep(20 * time.Microsecond)
		}
	}
	for _, g := range names {
		if !settled(g) {
			in.tr.emit(&Event{Ev: "concend", H: h.H, ID: st.ID, Note: "stuck:" + g})
			return
		}
	}
	// lock picture kept by the scheduler itself
	writer := ""
	readers := map[string]bool{}
	enabled := func() []string {
		var out []string
		for _, g := range names {
			op, parked, done := s.Pending(g)
			if done || !parked {
				continue
			}
			switch op.Kind {
			case "Lock":
				if writer != "" || len(readers) > 0 {
					continue
				}
			case "RLock":
				if writer != "" {
					continue
				}
			}
			out = append(out, g)
		}
		return out
	}
	type rec struct {
		G       string   `json:"g"`
		Op      string   `json:"op"`
		Arg     string   `json:"arg"`
		Enabled []string `json:"enabled"`
	}
	var log []rec
	note := ""
	step := func(g string, en []string) bool {
		op, _, _ := s.Pending(g)
		switch op.Kind {
		case "Lock":
			writer = g
		case "Unlock":
			writer = ""
		case "RLock":
			readers[g] = true
		case "RUnlock":
			delete(readers, g)
		}
		log = append(log, rec{G: g, Op: op.Kind, Arg: op.Arg, Enabled: en})
		s.Release(g)
		return settled(g)
	}
	contains := func(xs []string, x string) bool {
		for _, y := range xs {
			if y == x {
				return true
			}
		}
		return false
	}
	last := ""
	si := 0
	for {
		en := enabled()
		if len(en) == 0 {
			break
		}
		g := ""
		if si < len(st.Schedule) {
			want := st.Schedule[si]
			si++
			if !contains(en, want) {
				note = "infeasible:" + want
				break
			}
			g = want
		} else if last != "" && contains(en, last) {
			g = last // non-preemptive default
		} else {
			g = en[0]
		}
		if !step(g, en) {
			note = "stuck:" + g
			break
		}
		last = g
	}
	for _, g := range names {
		if _, _, done := s.Pending(g); !done && note == "" {
			note = "deadlock"
		}
	}
	lb, _ := json.Marshal(log)
	in.tr.emit(&Event{Ev: "concend", H: h.H, ID: st.ID, Note: note, Out: b64(string(lb)), Dirs: in.states(h)})
}

