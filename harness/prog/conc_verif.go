//go:build verif

package vprog

import (
	"encoding/json"
	"sort"
	"strconv"
	"time"

	"github.com/gkampitakis/go-snaps/vshim/gate"
)

// runConc executes the goroutines of a "conc" step under the scheduler gate (DESIGN.md §5.2):
// exactly one goroutine runs between two yield points; the order is the given schedule, then a
// non-preemptive default policy. The primitive log with the enabled set at every step is emitted.
func (in *Interp) runConc(h *Hist, st *Step) {
	s := gate.New()
	gate.Install(s)
	defer gate.Install(nil)
	names := []string{}
	for _, g := range st.Gs {
		names = append(names, g.G)
	}
	sort.Strings(names)
	for _, g := range st.Gs {
		g := g
		in.Spawn(func() {
			s.Register(g.G)
			defer s.Finish()
			t := &recT{name: g.Test}
			in.tr.emit(&Event{Ev: "begin", H: h.H, T: g.Test})
			for _, cs := range g.Steps {
				in.step(&Hist{H: h.H}, t, cs, nil)
			}
			t.runCleanups()
			in.tr.emit(&Event{Ev: "end", H: h.H, T: g.Test})
		})
	}
	deadline := time.Now().Add(20 * time.Second)
	settled := func(g string) bool {
		for {
			_, parked, done := s.Pending(g)
			if parked || done {
				return true
			}
			if time.Now().After(deadline) {
				return false
			}
			time.Sleep(20 * time.Microsecond)
		}
	}
	for _, g := range names {
		if !settled(g) {
			in.tr.emit(&Event{Ev: "concend", H: h.H, ID: st.ID, Note: "stuck:" + g})
			return
		}
	}
	// lock picture kept by the scheduler itself
	writer := map[string]string{}          // lock id -> goroutine holding it exclusively
	readers := map[string]map[string]int{} // lock id -> goroutines holding it shared (with multiplicity)
	pend := map[string]map[string]bool{}   // lock id -> goroutines that announced Lock and wait
	norm := map[string]string{}            // lock ids renumbered in order of first use within this run
	enabled := func() []string {
		var out []string
		for _, g := range names {
			op, parked, done := s.Pending(g)
			if done || !parked {
				continue
			}
			switch op.Kind {
			case "Lock":
				if writer[op.Arg] != "" || len(readers[op.Arg]) > 0 {
					continue
				}
			case "RLock":
				if writer[op.Arg] != "" || len(pend[op.Arg]) > 0 {
					continue
				}
			}
			out = append(out, g)
		}
		return out
	}
	type rec struct {
		G       string   `json:"g"`
		Op      string   `json:"op"`
		Arg     string   `json:"arg"`
		Enabled []string `json:"enabled"`
	}
	var log []rec
	note := ""
	step := func(g string, en []string) bool {
		op, _, _ := s.Pending(g)
		switch op.Kind {
		case "LockReq":
			if pend[op.Arg] == nil {
				pend[op.Arg] = map[string]bool{}
			}
			pend[op.Arg][g] = true
		case "Lock":
			writer[op.Arg] = g
			delete(pend[op.Arg], g)
		case "Unlock":
			delete(writer, op.Arg)
		case "RLock":
			if readers[op.Arg] == nil {
				readers[op.Arg] = map[string]int{}
			}
			readers[op.Arg][g]++
		case "RUnlock":
			if readers[op.Arg][g]--; readers[op.Arg][g] <= 0 {
				delete(readers[op.Arg], g)
			}
		}
		kind := op.Kind
		switch kind {
		case "Lock", "LockReq", "Unlock", "RLock", "RUnlock", "TryLock", "TryRLock":
			if _, ok := norm[op.Arg]; !ok {
				norm[op.Arg] = "rw" + strconv.Itoa(len(norm)+1)
			}
			if norm[op.Arg] != "rw1" {
				kind += "#" + norm[op.Arg] // a second lock object: outside the single-lock model (no-op there)
			}
		}
		log = append(log, rec{G: g, Op: kind, Arg: op.Arg, Enabled: en})
		s.Release(g)
		return settled(g)
	}
	contains := func(xs []string, x string) bool {
		for _, y := range xs {
			if y == x {
				return true
			}
		}
		return false
	}
	last := ""
	si := 0
	for {
		en := enabled()
		if len(en) == 0 {
			break
		}
		g := ""
		if si < len(st.Schedule) {
			want := st.Schedule[si]
			si++
			if !contains(en, want) {
				note = "infeasible:" + want
				break
			}
			g = want
		} else if last != "" && contains(en, last) {
			g = last // non-preemptive default
		} else {
			g = en[0]
		}
		if !step(g, en) {
			note = "stuck:" + g
			break
		}
		last = g
	}
	for _, g := range names {
		if _, _, done := s.Pending(g); !done && note == "" {
			note = "deadlock"
		}
	}
	lb, _ := json.Marshal(log)
	in.tr.emit(&Event{Ev: "concend", H: h.H, ID: st.ID, Note: note, Out: b64(string(lb)), Dirs: in.states(h)})
}
