package vprog

import "testing"

// A test file whose name has a dot before _test.go: calls made through this helper belong to
// pay.v2_test.snap, and Clean's file-level -run rule has to find THIS source file again from the
// snapshot file's name (C08).
func dotFileHelper(call func()) { call() }

func init() { shapes["dotfile"] = dotFileHelper }

// TestV2Only exists so that the file declares a test of its own; scripts give it no steps.
func TestV2Only(t *testing.T) {}
