package vprog

// nonTestHelper is a helper frame living in a non-test source file (C11 call shapes).
func nonTestHelper(call func()) { call() }

// nonTestDeep puts n non-test frames between the test function and the call.
func nonTestDeep(n int, call func()) {
	if n <= 0 {
		call()
		return
	}
	nonTestDeep(n-1, call)
}
