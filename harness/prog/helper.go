package vprog

// nonTestHelper is a helper frame living in a non-test source file (C11 call shapes).
func nonTestHelper(call func()) { call() }
