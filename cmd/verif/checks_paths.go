package main

import (
	"encoding/json"
	"fmt"
	"hash/fnv"
	"strconv"
	"strings"
	"time"
)

// C11: snapshot location is a pure function of test file, test name and options.

func init() {
	register("C11", "model_checking", "TLC enumerates the whole configuration domain of the location function (MC_Paths) and checks its algebraic rules; each cell is executed on the real code (driver variants: plain / -trimpath / sub-package two levels deep; package and foreign working directory; ten call shapes) and TLC validates that the file appears at Paths!PathOf", checkC11)
}

type pathCell struct {
	Cell struct {
		Dir      string `json:"dir"`
		Filename string `json:"filename"`
		Ext      string `json:"ext"`
		API      string `json:"api"`
		Shape    string `json:"shape"`
		Variant  string `json:"variant"`
		Cwd      string `json:"cwd"`
	} `json:"cell"`
	Loc string `json:"loc"`
}

func pathScenario(id string, pc *pathCell, foreign string) *Scenario {
	c := pc.Cell
	sc := &Scenario{ID: id, Configs: map[string]*Cfg{}, DefaultLoc: true, WatchRel: []string{"relsnaps", "nested"}, Program: []string{"TestA"}}
	k := &Cfg{}
	switch c.Dir {
	case "rel":
		k.Dir = sp("relsnaps")
	case "dotrel": // same directory, spelled with a leading "./" (seeded change R6-C11-B)
		k.Dir = sp("./relsnaps")
	case "nested":
		k.Dir = sp("nested/rel/dir")
	case "abs":
		k.Dir = sp("@/abs/snaps")
	}
	if c.Filename != "" {
		k.Filename = sp(c.Filename)
	}
	if c.Ext != "" {
		k.Ext = sp(c.Ext)
	}
	sc.Configs["k"] = k
	call := &Step{Op: "match", API: c.API, Cfg: "k", Val: seqValue(c.API, 1)}
	var steps []*Step
	switch c.Shape {
	case "subtest":
		steps = []*Step{{Op: "sub", Name: "x", Steps: []*Step{call}}}
		sc.Program = append(sc.Program, "TestA/x")
	case "subtest2":
		steps = []*Step{{Op: "sub", Name: "x", Steps: []*Step{{Op: "sub", Name: "y", Steps: []*Step{call}}}}}
		sc.Program = append(sc.Program, "TestA/x", "TestA/x/y")
	case "direct":
		steps = []*Step{call}
	default:
		call.Via = c.Shape
		steps = []*Step{call}
	}
	hh := fnv.New32a()
	hh.Write([]byte(id + c.Shape + c.API))
	if hh.Sum32()%3 == 0 {
		// purity: an earlier call of another kind through the same Config must not move the location
		pre := &Step{Op: "match", API: "sjson", Cfg: "k", Val: seqValue("sjson", 0)}
		steps = append([]*Step{pre}, steps...)
	}
	spec := ProcSpec{Variant: c.Variant}
	if c.Variant == "envtrimpath" {
		spec = ProcSpec{Env: map[string]string{"GOFLAGS": "-trimpath"}}
	}
	if c.Cwd == "foreign" {
		spec.Dir = foreign
	}
	sc.Procs = append(sc.Procs, &Proc{Spec: spec, Real: true, State: "call", Tests: map[string]*TDef{"TestA": {Execs: [][]*Step{steps}}}})
	// a second, read-only process from the other kind of working directory must find it again
	spec2 := spec
	spec2.CI = "CI"
	sc.Procs = append(sc.Procs, &Proc{Spec: spec2, Real: true, State: "call", Tests: map[string]*TDef{"TestA": {Execs: [][]*Step{steps}}}})
	sc.Note = fmt.Sprintf("cell dir=%s filename=%q ext=%q api=%s shape=%s variant=%q cwd=%s -> %s", c.Dir, c.Filename, c.Ext, c.API, c.Shape, c.Variant, c.Cwd, pc.Loc)
	return sc
}

func checkC11(c *CheckCtx) error {
	c.Rule = "cells: Dir{unset,relative,nested relative,absolute} x Filename{unset,set} x Ext{unset,set} x 5 APIs x 10 call shapes (direct, 1-3 helper frames in test files, helpers in non-test files, 40 and 100 non-test frames, closure, subtest, nested subtest) x {plain, -trimpath, sub-package, sub-package -trimpath} x {package dir, foreign dir (not with -trimpath)}; every cell is distinct"
	c.Assumptions = []string{"-trimpath builds are only run from the package directory (README limitation)", "the 'programs' quantifier is covered by the enumerated call shapes, not by arbitrary programs", "helpers in test files live in the calling test file (main_test.go); the location follows the innermost *_test.go frame"}
	dir, err := specDir(c.Sc, c.Sc.Next("mc"))
	if err != nil {
		return err
	}
	cfg := "MC_Paths.cfg"
	if c.thorough() {
		cfg = "MC_Paths_full.cfg"
	}
	res, err := runTLC(dir, "MC_Paths.tla", cfg, 8, 20*time.Minute)
	if err != nil {
		return err
	}
	if res.Violation {
		return inconclusive("MC_Paths violates %s in the specification itself", res.ViolatedBy)
	}
	c.model(cfg, res, true, "DirRule, NameRule (and ShapeCwdTrimpathIrrelevant in the thorough tier) hold on every cell")
	var cells []*pathCell
	for _, line := range res.Printed {
		s, err := strconv.Unquote(line)
		if err != nil {
			return inconclusive("cannot unquote cell: %v", err)
		}
		pc := &pathCell{}
		if err := json.Unmarshal([]byte(strings.TrimPrefix(s, "@@")), pc); err != nil {
			return inconclusive("cannot parse cell: %v", err)
		}
		cells = append(cells, pc)
	}
	total := len(cells)
	if !c.thorough() {
		var sel []*pathCell
		for _, pc := range cells {
			h := fnv.New32a()
			b, _ := json.Marshal(pc.Cell)
			h.Write(b)
			if int64(h.Sum32()%5) == c.Seed%5 {
				sel = append(sel, pc)
			}
		}
		cells = sel
	}
	c.Exhaustive = c.thorough()
	c.variants = true
	foreign := c.Sc.Sub("foreign_cwd")
	var scs []*Scenario
	for i, pc := range cells {
		sc := pathScenario(fmt.Sprintf("p%d", i), pc, foreign)
		scs = append(scs, sc)
		c.nontrivial(sc.Note)
	}
	c.sample(map[string]any{"cell": cells[0].Cell, "contract_location": cells[0].Loc})
	c.note("%d of %d cells executed in this tier", len(cells), total)
	if err := c.runSeq(scs); err != nil {
		return err
	}
	return c.repro(reproK8())
}
