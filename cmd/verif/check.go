package main

import (
	"encoding/json"
	"fmt"
	"os"
	"path/filepath"
	"runtime"
	"sort"
	"strings"
	"time"
)

type Violation struct {
	Prop     string          `json:"property"`
	What     string          `json:"what"`
	Known    string          `json:"known,omitempty"` // id of the known finding whose signature matches
	Mismatch *Mismatch       `json:"mismatch,omitempty"`
	Event    map[string]any  `json:"event,omitempty"`
	Scenario *Scenario       `json:"scenario,omitempty"`
	Kind     string          `json:"kind"` // replay dispatcher: "seq", "diff", "docs", "conc", ...
	Extra    json.RawMessage `json:"extra,omitempty"`
}

type ModelRun struct {
	Name        string  `json:"name"`
	States      int64   `json:"states"`
	Transitions int64   `json:"transitions"`
	Depth       int     `json:"depth"`
	Wall        float64 `json:"wall_s"`
	Exhaustive  bool    `json:"exhaustive"`
	Note        string  `json:"note,omitempty"`
}

type CheckCtx struct {
	Prop    string
	Tier    string
	Seed    int64
	Sc      *Scratch
	Workers int
	start   time.Time

	drv      *Driver
	pool     chan *Driver
	variants bool // the driver pool also needs the -trimpath and sub-package builds

	Models      []ModelRun
	Validated   int            // scenarios / traces validated against the implementation
	Evaluations int            // calls / cases executed on the real code
	Nontrivial  map[string]int // distinct non-trivial cases by key
	Samples     []any
	Stats       map[string]int
	Assumptions []string
	Notes       []string
	Rule        string
	Level       string
	Exhaustive  bool
	Technique   string

	devRun         bool
	NontrivialStat string // stats key (counted by the trace specification) capping distinct_nontrivial

	Violations []*Violation
	KnownHit   map[string]string // finding id -> what
	Drifts     []string
}

func (c *CheckCtx) thorough() bool { return c.Tier == "thorough" }

func (c *CheckCtx) pick(quick, thorough int) int {
	if c.thorough() {
		return thorough
	}
	return quick
}

func (c *CheckCtx) driver() (*Driver, error) {
	if c.drv != nil {
		return c.drv, nil
	}
	d, err := buildDriver(c.Sc, "prog")
	if err != nil {
		return nil, err
	}
	c.drv = d
	return d, nil
}

// buildPool compiles n private copies of the driver (default-location scenarios: the snapshot
// location is derived from the compiled-in source path, so concurrent scenarios need own copies).
func (c *CheckCtx) buildPool(n int) error {
	c.pool = make(chan *Driver, n)
	ds := make([]*Driver, n)
	if err := parallelDo(n, n, func(i int) error {
		d, err := buildDriver(c.Sc, fmt.Sprintf("prog_w%d", i))
		ds[i] = d
		if err == nil && c.variants {
			err = d.buildVariants()
		}
		return err
	}); err != nil {
		return err
	}
	for _, d := range ds {
		c.pool <- d
	}
	return nil
}

func (c *CheckCtx) addStats(m map[string]int) {
	for k, v := range m {
		c.Stats[k] += v
	}
}

func (c *CheckCtx) note(format string, a ...any) {
	s := fmt.Sprintf(format, a...)
	c.Notes = append(c.Notes, s)
	fmt.Println("NOTE:", s)
}

func (c *CheckCtx) nontrivial(key string) { c.Nontrivial[key]++ }

func (c *CheckCtx) sample(v any) {
	if len(c.Samples) < 6 {
		c.Samples = append(c.Samples, v)
	}
}

func (c *CheckCtx) model(name string, r *TLCResult, exhaustive bool, note string) {
	c.Models = append(c.Models, ModelRun{Name: name, States: r.Distinct, Transitions: r.Generated, Depth: r.Depth, Wall: r.Wall, Exhaustive: exhaustive, Note: note})
	fmt.Printf("MODEL %s: %d distinct states, %d generated, depth %d, %.1fs\n", name, r.Distinct, r.Generated, r.Depth, r.Wall)
}

// ---------------------------------------------------------------- property registry

type checkFn func(c *CheckCtx) error

type propDef struct {
	fn        checkFn
	level     string
	technique string
}

var registry = map[string]propDef{}

func register(id, level, technique string, fn checkFn) {
	registry[id] = propDef{fn: fn, level: level, technique: technique}
}

func runCheck(prop, tier string, seed int64) (int, error) {
	def, ok := registry[prop]
	if !ok {
		return 2, fmt.Errorf("no check for %s", prop)
	}
	if tier != "quick" && tier != "thorough" {
		return 2, fmt.Errorf("unknown tier %q", tier)
	}
	sc, err := newScratch(prop)
	if err != nil {
		return 2, err
	}
	defer sc.Close()
	c := &CheckCtx{Prop: prop, Tier: tier, Seed: seed, Sc: sc, Workers: runtime.NumCPU(), start: time.Now(),
		Nontrivial: map[string]int{}, Stats: map[string]int{}, KnownHit: map[string]string{}, Level: def.level, Technique: def.technique}
	if err := loadFindings(); err != nil {
		return 2, err
	}
	if err := def.fn(c); err != nil {
		if c.hangViolations() {
			fmt.Println("NOTE:", err)
			return c.finish()
		}
		return 2, err
	}
	return c.finish()
}

// finish prints verdict lines, writes replay files and evidence; returns the exit code.
func (c *CheckCtx) finish() (int, error) {
	// known findings: re-assert and print
	ids := make([]string, 0, len(c.KnownHit))
	for id := range c.KnownHit {
		ids = append(ids, id)
	}
	sort.Strings(ids)
	for _, id := range ids {
		fmt.Printf("KNOWN-FINDING: property=%s %s %s\n", c.Prop, id, c.KnownHit[id])
	}
	for _, d := range dedupe(c.Drifts) {
		fmt.Println("MODEL-DRIFT", d)
	}
	code := 0
	seen := map[string]bool{}
	nviol := 0
	outHome := envOr("VERIF_OUT", verifHome) // evaluation runs against scratch copies keep /verif untouched
	os.MkdirAll(filepath.Join(outHome, "replays"), 0o755)
	for _, v := range c.Violations {
		key := v.What
		if seen[key] {
			continue
		}
		seen[key] = true
		nviol++
		if nviol > 8 {
			continue
		}
		b, _ := json.MarshalIndent(v, "", " ")
		path := filepath.Join(outHome, "replays", fmt.Sprintf("%s-%s.json", c.Prop, shortHash(b)))
		if err := os.WriteFile(path, b, 0o644); err != nil {
			return 2, err
		}
		fmt.Printf("VIOLATION property=%s replay=%s\n", c.Prop, path)
		fmt.Printf("  %s\n", v.What)
		code = 1
	}
	if err := c.writeEvidence(nviol); err != nil {
		return 2, err
	}
	if code == 0 {
		fmt.Printf("OK property=%s tier=%s seed=%d validated=%d evaluations=%d wall=%.1fs\n", c.Prop, c.Tier, c.Seed, c.Validated, c.Evaluations, time.Since(c.start).Seconds())
	}
	return code, nil
}

func dedupe(in []string) []string {
	seen := map[string]bool{}
	var out []string
	for _, s := range in {
		if !seen[s] {
			seen[s] = true
			out = append(out, s)
		}
	}
	return out
}

func (c *CheckCtx) writeEvidence(nviol int) error {
	if _, ok := registry[c.Prop]; !ok || c.devRun {
		return nil // development / self-test contexts never write evidence
	}
	cov := map[string]any{}
	var st, tr int64
	for _, m := range c.Models {
		st += m.States
		tr += m.Transitions
	}
	nt := 0
	for range c.Nontrivial {
		nt++
	}
	if c.NontrivialStat != "" && c.Stats[c.NontrivialStat] < nt {
		// the specification itself counted how many cases reached the property's antecedent
		nt = c.Stats[c.NontrivialStat]
	}
	if len(c.Samples) == 0 {
		c.Samples = append(c.Samples, "no sample recorded")
	}
	cov["evaluations"] = c.Evaluations
	cov["distinct_nontrivial"] = nt
	cov["rule"] = c.Rule
	cov["samples"] = c.Samples
	if st > 0 {
		cov["states"] = st
		cov["transitions"] = tr
	}
	cov["traces_validated_against_impl"] = c.Validated
	cov["models"] = c.Models
	cov["stats"] = c.Stats
	cov["exhaustive"] = c.Exhaustive
	cov["notes"] = c.Notes
	cov["technique"] = c.Technique
	known := []string{}
	for id, w := range c.KnownHit {
		known = append(known, id+": "+w)
	}
	sort.Strings(known)
	cov["known_findings_hit"] = known
	cov["model_drift"] = dedupe(c.Drifts)
	level := c.Level
	if level == "model_checking" && st == 0 {
		level = "exploration"
	}
	ev := map[string]any{
		"property_id": c.Prop,
		"tier":        c.Tier,
		"seed":        c.Seed,
		"level":       level,
		"coverage":    cov,
		"assumptions": c.Assumptions,
		"wall_s":      time.Since(c.start).Seconds(),
		"violations":  nviol,
	}
	b, _ := json.MarshalIndent(ev, "", " ")
	dir := filepath.Join(envOr("VERIF_OUT", verifHome), "evidence")
	os.MkdirAll(dir, 0o755)
	return os.WriteFile(filepath.Join(dir, c.Prop+".json"), b, 0o644)
}

// ---------------------------------------------------------------- sequential family plumbing

// runSeq executes scenarios, validates their traces with TraceSeq and files the mismatches that
// belong to this property (others are only noted).
func (c *CheckCtx) runSeq(scs []*Scenario) error {
	if len(scs) == 0 {
		return nil
	}
	d, err := c.driver()
	if err != nil {
		return err
	}
	t0 := time.Now()
	var pools []chan *Driver
	for _, s := range scs {
		if s.DefaultLoc {
			if c.pool == nil {
				if err := c.buildPool(c.Workers); err != nil {
					return err
				}
			}
			pools = []chan *Driver{c.pool}
			break
		}
	}
	runs, err := runScenarios(c.Sc, d, scs, c.Workers, pools...)
	if err != nil {
		return err
	}
	tRun := time.Since(t0)
	defer func() {
		if os.Getenv("VERIF_VERBOSE") != "" {
			fmt.Printf("  timing: %d scenarios executed in %.1fs, abstraction+validation %.1fs\n", len(scs), tRun.Seconds(), time.Since(t0).Seconds()-tRun.Seconds())
		}
	}()
	a := newAbsCtx(c.Sc.Root, d.GoJSON)
	byH := map[string]*Scenario{}
	// chunks of whole histories are validated by independent TLC processes in parallel
	type chunk struct {
		events []map[string]any
		n      int
	}
	var chunks []*chunk
	cur := &chunk{}
	for _, r := range runs {
		if r.Err != nil {
			return r.Err
		}
		evs, err := abstractRun(a, r, d.Dir)
		if err != nil {
			return err
		}
		byH[r.Sc.ID] = r.Sc
		cur.events = append(cur.events, evs...)
		cur.n++
		if len(cur.events) >= 700 {
			chunks = append(chunks, cur)
			cur = &chunk{}
		}
	}
	if cur.n > 0 {
		chunks = append(chunks, cur)
	}
	verdicts := make([]*TraceVerdict, len(chunks))
	tw := c.Workers * 3 / 4
	if tw < 1 {
		tw = 1
	}
	if err := parallelDo(len(chunks), tw, func(i int) error {
		v, err := validateTrace(c.Sc, "TraceSeq", chunks[i].events)
		verdicts[i] = v
		if err == nil && os.Getenv("VERIF_VERBOSE") != "" {
			fmt.Printf("  chunk %d: %d events, %d histories, TLC %.1fs\n", i, len(chunks[i].events), chunks[i].n, v.TLC.Wall)
		}
		return err
	}); err != nil {
		return err
	}
	c.Validated += len(scs)
	other := map[string]int{}
	for ci, v := range verdicts {
		all := chunks[ci].events
		c.Evaluations += v.Stats["calls"] + v.Stats["cleans"]
		c.addStats(v.Stats)
		for _, dr := range v.Drift {
			c.Drifts = append(c.Drifts, fmt.Sprintf("action=%s (e.g. history %s %s)", dr.Action, dr.H, dr.Path))
		}
		// root of every diverging history: the records of its first diverging event. Cascades of
		// a root that matches a listed known finding are consequences of that finding.
		rootL := map[string]int{}
		rootKnown := map[string]bool{}
		for _, m := range v.Bad {
			if l, ok := rootL[m.H]; !ok || m.L < l {
				rootL[m.H] = m.L
			}
		}
		for i := range v.Bad {
			m := v.Bad[i]
			if m.L == rootL[m.H] {
				for _, id := range candidateSignatures(&m, all[m.L-1], byH[m.H]) {
					if listedAnywhere(id) {
						rootKnown[m.H] = true
					}
				}
			}
		}
		for i := range v.Bad {
			m := v.Bad[i]
			if m.Casc && rootKnown[m.H] {
				continue
			}
			ev := all[m.L-1]
			sc := byH[m.H]
			props := propsOfMismatch(m, ev)
			props = append(props, slotKeeping(all, m.L-1)...)
			if sc != nil {
				for _, tg := range sc.Tags { // scenario families built for one property
					if strings.HasPrefix(tg, "also:") {
						props = append(props, strings.TrimPrefix(tg, "also:"))
					}
				}
			}
			mine := false
			for _, p := range props {
				if p == c.Prop {
					mine = true
				}
			}
			if !mine {
				k := strings.Join(props, ",") + ":" + m.Check + " sig=" + strings.Join(candidateSignatures(&m, ev, sc), "+")
				if other[k] == 0 && os.Getenv("VERIF_VERBOSE") != "" {
					fmt.Println("  e.g.", describeMismatch(m, ev), scenarioBrief(sc))
				}
				other[k]++
				continue
			}
			what := fmt.Sprintf("%s: %s", describeMismatch(m, ev), scenarioBrief(sc))
			if id := matchKnown(c.Prop, &m, ev, sc); id != "" {
				if _, ok := c.KnownHit[id]; !ok {
					c.KnownHit[id] = what
				}
				continue
			}
			c.Violations = append(c.Violations, &Violation{Prop: c.Prop, What: what, Mismatch: &m, Event: slimEvent(ev), Scenario: sc, Kind: "seq"})
		}
	}
	for k, n := range other {
		c.note("%d mismatch(es) attributed to other properties [%s] seen while checking %s", n, k, c.Prop)
	}
	return nil
}

func slimEvent(ev map[string]any) map[string]any {
	out := map[string]any{}
	for k, v := range ev {
		if k == "fs" {
			continue
		}
		out[k] = v
	}
	return out
}

func describeMismatch(m Mismatch, ev map[string]any) string {
	api, _ := ev["api"].(string)
	t, _ := ev["t"].(string)
	if m.Casc {
		return fmt.Sprintf("[%s, consequence of an earlier divergence in this history] event %v(%s %s) expected=%s observed=%s entry=%s path=%s hdr=%s %s", m.Check, ev["ev"], api, t, m.Exp, m.Got, m.St, m.Path, m.Hdr, m.Info)
	}
	return fmt.Sprintf("[%s] event %v(%s %s) expected=%s observed=%s entry=%s path=%s hdr=%s %s", m.Check, ev["ev"], api, t, m.Exp, m.Got, m.St, m.Path, m.Hdr, m.Info)
}

func scenarioBrief(s *Scenario) string {
	if s == nil {
		return ""
	}
	return fmt.Sprintf("scenario %s (%s)", s.ID, s.Note)
}

// propsOfMismatch maps a divergence between the real execution and the contract to the
// properties it violates.
func propsOfMismatch(m Mismatch, ev map[string]any) []string {
	ps := propsOfMismatch0(m, ev)
	api, _ := ev["api"].(string)
	if (api == "ssnap" || api == "sjson") && ev["ev"] == "match" {
		// the k-th standalone call maps to file k, whose bytes are exactly the value: any divergence
		// of a standalone call is also a divergence from C19
		for _, p := range ps {
			if p == "C19" {
				return ps
			}
		}
		ps = append(ps, "C19")
	}
	return ps
}

func propsOfMismatch0(m Mismatch, ev map[string]any) []string {
	api, _ := ev["api"].(string)
	ci := false
	docProp := func() string {
		switch api {
		case "yaml":
			return "C18"
		case "json", "sjson":
			return "C14"
		}
		return "C01"
	}
	_ = ci
	standalone := api == "ssnap" || api == "sjson"
	if uw, _ := ev["unwritable"].(bool); uw {
		return []string{"C20", "C05"}
	}
	switch m.Check {
	case "outcome":
		switch {
		case m.Info == "invalid":
			return []string{docProp()}
		case m.Info == "mfail":
			return []string{"C17", "C15"}
		case m.St == "equal":
			ps := []string{"C01"}
			if m.Got == "updated" || m.Got == "added" {
				ps = append(ps, "C04")
			}
			if docProp() != "C01" { // same document, other presentation / form: canonical storage
				ps = append(ps, docProp())
			}
			if nm, _ := ev["nm"].(int); nm > 0 { // inputs that differ only at masked paths must pass
				ps = append(ps, "C16")
			}
			return ps
		case m.St == "different":
			if m.Exp == "failed" && m.Got == "passed" {
				if api == "json" || api == "sjson" || api == "yaml" {
					return []string{"C02", "C16", docProp()} // an unmasked difference did not show
				}
				return []string{"C02"}
			}
			if m.Exp == "failed" {
				return []string{"C05", "C02"}
			}
			if m.Got == "passed" {
				return []string{"C04", "C02"}
			}
			return []string{"C05", "C04"}
		case m.St == "missing":
			return []string{"C05"}
		}
		return []string{"C20"}
	case "outcome.malformed":
		return []string{"C20"}
	case "call.panicked":
		ps := []string{"C20", docProp()}
		if nm, _ := ev["nm"].(int); nm > 0 {
			ps = append(ps, "C15", "C17")
		}
		return ps
	case "matcher.unnamed":
		return []string{"C17"}
	case "format.unstable":
		return []string{docProp()}
	case "json.lossy":
		return []string{"C14"}
	case "buf.modified", "doc.mismatch":
		return []string{"C15"}
	case "nowrite":
		ps := []string{}
		switch {
		case m.St == "equal":
			ps = append(ps, "C01", "C04")
		case m.Exp == "failed" && m.St == "different":
			ps = append(ps, "C02")
		}
		if inv, _ := ev["invalid"].(bool); inv {
			ps = append(ps, docProp())
		}
		if mf, _ := ev["mfail"].([]any); len(mf) > 0 {
			ps = append(ps, "C17")
		}
		ps = append(ps, "C05")
		return ps
	case "write.elsewhere":
		return []string{"C03", "C12", "C11"}
	case "alone.missing", "alone.location":
		return []string{"C19", "C11", "C12"}
	case "alone.value":
		return []string{"C19", "C04"}
	case "file.malformed":
		return []string{"C04", "C03"}
	case "entry.missing":
		if m.Info == "target" {
			if standalone {
				return []string{"C19"}
			}
			return []string{"C03", "C04"}
		}
		return []string{"C03"}
	case "entry.extra":
		return []string{"C03", "C04"}
	case "entry.value":
		if m.Info == "target" {
			return []string{"C04", "C01", docProp()}
		}
		return []string{"C03"}
	case "entry.order":
		return []string{"C03"}
	case "end.wrote":
		return []string{"C01"}
	case "skip.signal", "noargs":
		return []string{"C20"}
	case "clean.entry.unlisted":
		return []string{"C09", "C20"}
	case "clean.entry.overlisted":
		switch m.Info {
		case "addressed":
			return []string{"C07"}
		case "protected":
			return []string{"C08"}
		}
		return []string{"C09", "C20"}
	case "clean.entry.removed":
		switch m.Info {
		case "addressed":
			return []string{"C07", "C10"}
		case "protected":
			return []string{"C08", "C10"}
		case "nodelete":
			return []string{"C09", "C05", "C10"}
		}
		return []string{"C09", "C10", "C20"} // removed but not listed: the summary does not list what Clean judged obsolete
	case "clean.entry.kept":
		return []string{"C09"}
	case "clean.entry.added":
		return []string{"C10"}
	case "clean.entry.value":
		if m.Info == "addressed" {
			return []string{"C07", "C10"}
		}
		if m.Info == "protected" {
			return []string{"C08", "C10"}
		}
		return []string{"C10"}
	case "clean.file.malformed", "clean.unsorted":
		return []string{"C10"}
	case "clean.reordered":
		return []string{"C10", "C05"}
	case "clean.needless_write":
		if m.Info == "ci" {
			return []string{"C05", "C10"}
		}
		return []string{"C10"}
	case "clean.file.unlisted":
		return []string{"C09"}
	case "clean.file.overlisted":
		switch m.Info {
		case "addressed":
			return []string{"C07"}
		case "protected":
			return []string{"C08"}
		}
		return []string{"C09"}
	case "clean.file.removed":
		switch m.Info {
		case "used":
			return []string{"C07"}
		case "protected":
			return []string{"C08"}
		case "nodelete":
			return []string{"C09", "C05"}
		}
		return []string{"C09"}
	case "clean.file.kept", "clean.file.modified":
		return []string{"C09"}
	case "clean.touched":
		if m.Info == "addressed" {
			return []string{"C07"}
		}
		return []string{"C09"}
	case "clean.ci_wrote":
		return []string{"C05"}
	case "summary.total", "summary.listcount", "summary.action":
		return []string{"C20"}
	}
	return []string{"C20"}
}

// slotKeeping: a divergence at a call that follows, in the same execution of the same test, a call
// that failed before comparing (failing matchers, invalid input) is also a divergence from
// "later calls of the test keep their slots" (C17) / "a failing call still consumes its ordinal" (C03).
func slotKeeping(all []map[string]any, idx int) []string {
	ev := all[idx]
	if ev["ev"] != "match" {
		return nil
	}
	var out []string
	for i := idx - 1; i >= 0; i-- {
		e := all[i]
		if e["h"] != ev["h"] || e["ev"] == "proc" || e["ev"] == "reset" {
			break
		}
		if e["t"] != ev["t"] {
			continue
		}
		if e["ev"] == "begin" || e["ev"] == "end" {
			break
		}
		if e["ev"] == "match" {
			if mf, _ := e["mfail"].([]any); len(mf) > 0 {
				out = append(out, "C17", "C03")
			}
			if inv, _ := e["invalid"].(bool); inv {
				out = append(out, "C03")
				switch e["api"] {
				case "json", "sjson":
					out = append(out, "C14")
				case "yaml":
					out = append(out, "C18")
				}
			}
		}
	}
	return out
}
