package main

import (
	"encoding/base64"
	"encoding/json"
	"fmt"
	"os"
	"runtime"
	"time"
)

// verif replay <Cxx> <file>: re-executes the failing case of a replay file against the real code
// (current working tree) and judges it again; exit 1 iff the property is violated again.
func runReplay(prop, file string) (int, error) {
	b, err := os.ReadFile(file)
	if err != nil {
		return 2, err
	}
	v := &Violation{}
	if err := json.Unmarshal(b, v); err != nil {
		return 2, err
	}
	sc, err := newScratch("replay")
	if err != nil {
		return 2, err
	}
	defer sc.Close()
	c := &CheckCtx{Prop: prop, Tier: "quick", Seed: seed(), Sc: sc, Workers: runtime.NumCPU(), start: time.Now(),
		Nontrivial: map[string]int{}, Stats: map[string]int{}, KnownHit: map[string]string{}, Level: "other", Technique: "replay"}
	if err := loadFindings(); err != nil {
		return 2, err
	}
	switch v.Kind {
	case "seq":
		if v.Scenario == nil {
			return 2, fmt.Errorf("replay file holds no scenario")
		}
		if v.Scenario.DefaultLoc && len(v.Scenario.WatchRel) > 0 {
			c.variants = true
		}
		if err := c.runSeq([]*Scenario{v.Scenario}); err != nil {
			return 2, err
		}
	case "diff":
		var x struct {
			A string `json:"a_b64"`
			B string `json:"b_b64"`
		}
		json.Unmarshal(v.Extra, &x)
		a, _ := base64.StdEncoding.DecodeString(x.A)
		bb, _ := base64.StdEncoding.DecodeString(x.B)
		if err := c.judgeDiffCases([]*diffCase{{A: string(a), B: string(bb)}}, "MC_Diff_free.cfg", "replay"); err != nil {
			return 2, err
		}
	case "conc":
		var x struct {
			Calls    []concCall `json:"calls"`
			Order    []int      `json:"order"`
			Schedule []string   `json:"schedule"`
		}
		if err := json.Unmarshal(v.Extra, &x); err != nil {
			return 2, err
		}
		d, err := buildGatedDriver(c.Sc, "gated", false)
		if err != nil {
			return 2, err
		}
		runs, err := runScenarios(c.Sc, d, []*Scenario{concScenario("rp", x.Calls, x.Order, false, x.Schedule)}, 1)
		if err != nil {
			return 2, err
		}
		cr, err := readConcRun(runs[0])
		if err != nil {
			return 2, err
		}
		if err := c.judgeConc([]*concCase{{calls: x.Calls, order: x.Order, schedule: x.Schedule, run: cr}}, "replay"); err != nil {
			return 2, err
		}
	case "race":
		if err := c.raceRun(); err != nil {
			return 2, err
		}
	case "docs":
		var x struct {
			Text string   `json:"text"`
			YAML bool     `json:"yaml"`
			Case *docCase `json:"case"`
		}
		if err := json.Unmarshal(v.Extra, &x); err != nil || x.Case == nil {
			return 2, fmt.Errorf("replay file holds no document case")
		}
		if err := c.judgeDirect([]*docJob{{dc: x.Case, yaml: x.YAML, text: x.Text}}); err != nil {
			return 2, err
		}
	case "hang":
		var h Hang
		if err := json.Unmarshal(v.Extra, &h); err != nil || len(h.Scenarios) == 0 {
			return 2, fmt.Errorf("replay file holds no scenario")
		}
		if err := c.runSeq(h.Scenarios); err != nil {
			if !c.hangViolations() {
				return 2, err
			}
		}
	default:
		return 2, fmt.Errorf("unknown replay kind %q", v.Kind)
	}
	if len(c.Violations) > 0 {
		fmt.Printf("VIOLATION property=%s replay=%s\n  %s\n", prop, file, c.Violations[0].What)
		return 1, nil
	}
	for id, w := range c.KnownHit {
		fmt.Printf("KNOWN-FINDING: property=%s %s %s\n", prop, id, w)
	}
	fmt.Printf("OK replay of %s: the property holds on this case\n", file)
	return 0, nil
}
