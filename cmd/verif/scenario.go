package main

import (
	"crypto/sha256"
	"encoding/base64"
	"encoding/hex"
	"encoding/json"
	"fmt"
	"os"
	"path/filepath"
	"sort"
	"strings"
	"time"
)

// ---------------------------------------------------------------- script (mirrors harness/prog/interp_testkit.go)

type Script struct {
	Trace   string            `json:"trace"`
	Watch   []string          `json:"watch,omitempty"`
	Configs map[string]*Cfg   `json:"configs,omitempty"`
	Hists   []*Hist           `json:"hists,omitempty"`
	Tests   map[string]*TDef  `json:"tests,omitempty"`
	Clean   *CleanDef         `json:"clean,omitempty"`
	State   string            `json:"state,omitempty"`
	Extra   map[string]string `json:"extra,omitempty"`
}

type Cfg struct {
	Dir      *string  `json:"dir,omitempty"`
	Filename *string  `json:"filename,omitempty"`
	Ext      *string  `json:"ext,omitempty"`
	Update   *bool    `json:"update,omitempty"`
	JSON     *JSONCfg `json:"json,omitempty"`
	// House: this Config is built from the option VALUES of the named Config (created once and
	// reused, as a project-wide `var house = []func(*snaps.Config){...}` would be) followed by its
	// own JSON option. Dir/Filename/Ext/Update are repeated here for the abstraction.
	House string `json:"house,omitempty"`
}

type JSONCfg struct {
	Width    int    `json:"width"`
	Indent   string `json:"indent"`
	SortKeys bool   `json:"sortKeys"`
}

type Hist struct {
	H     string  `json:"h"`
	Watch string  `json:"watch"`
	Steps []*Step `json:"steps"`
}

type TDef struct {
	Execs [][]*Step `json:"execs"`
}

type CleanDef struct {
	Sort  bool `json:"sort"`
	NoOpt bool `json:"noopt,omitempty"`
	Twice bool `json:"twice,omitempty"`
}

type Step struct {
	ID       string     `json:"id"`
	Op       string     `json:"op"`
	API      string     `json:"api,omitempty"`
	Cfg      string     `json:"cfg,omitempty"`
	Val      *Val       `json:"val,omitempty"`
	Matchers []*Matcher `json:"matchers,omitempty"`
	Name     string     `json:"name,omitempty"`
	Parallel bool       `json:"parallel,omitempty"`
	Steps    []*Step    `json:"steps,omitempty"`
	Kind     string     `json:"kind,omitempty"`
	Via      string     `json:"via,omitempty"`
	Fresh    bool       `json:"fresh,omitempty"`
	Gs       []*ConcG   `json:"gs,omitempty"`
	Schedule []string   `json:"schedule,omitempty"`

	// orchestrator-side expectations (ignored by the driver)
	X *Expect `json:"x,omitempty"`
}

// Expect carries what the generator knows about a call independently of go-snaps.
type Expect struct {
	Invalid    bool        `json:"invalid,omitempty"`    // input is not valid JSON/YAML or not marshalable
	Unwritable bool        `json:"unwritable,omitempty"` // the snapshot location cannot be created (parent is a regular file)
	MFail      [][2]string `json:"mfail,omitempty"`      // failing matchers (name, path)
	VID        string      `json:"vid,omitempty"`        // value identity when the text is only known to go-snaps
	Inj        bool        `json:"inj,omitempty"`        // VID is injective within its family
	Doc        string      `json:"doc,omitempty"`        // JSON APIs: the document that must be stored (any presentation)
	Text       *string     `json:"text,omitempty"`       // expected formatted text when known independently
}

type ConcG struct {
	G     string  `json:"g"`
	Test  string  `json:"test"`
	Steps []*Step `json:"steps"`
}

type Val struct {
	K    string `json:"k"`
	B64  string `json:"b64,omitempty"`
	Name string `json:"name,omitempty"`
	Vals []*Val `json:"vals,omitempty"`
}

type Matcher struct {
	M           string          `json:"m"`
	Paths       []string        `json:"paths,omitempty"`
	Placeholder json.RawMessage `json:"placeholder,omitempty"`
	HasPH       bool            `json:"hasph,omitempty"`
	EOMP        *bool           `json:"eomp,omitempty"`
	T           string          `json:"t,omitempty"`
	Ret         json.RawMessage `json:"ret,omitempty"`
	Err         string          `json:"err,omitempty"`
	Shared      string          `json:"shared,omitempty"`
}

func strVal(s string) *Val { return &Val{K: "str", B64: base64.StdEncoding.EncodeToString([]byte(s))} }
func bytesVal(s string) *Val {
	return &Val{K: "bytes", B64: base64.StdEncoding.EncodeToString([]byte(s))}
}
func goVal(name string) *Val { return &Val{K: "go", Name: name} }
func sp(s string) *string    { return &s }
func bp(b bool) *bool        { return &b }

// ---------------------------------------------------------------- scenario

type InitFile struct {
	P       string // path relative to the scenario directory
	Content []byte
	IsDir   bool
	Role    string // multi | alone | other
	Owner   string // owning test of a standalone file ("" unknown)
	CRLF    bool   // multi-entry file whose lines end in CRLF (checked out with core.autocrlf)
}

type Proc struct {
	Spec  ProcSpec
	Real  bool             // real runner (one process per scenario) vs bulk (fake test objects)
	Steps []*Step          // bulk
	Tests map[string]*TDef // real
	Clean *CleanDef        // real
	State string           // real: "call" or "end"
}

type Scenario struct {
	ID      string
	Init    []InitFile
	Program []string        // test names the program contains
	Configs map[string]*Cfg // Dir is rewritten to live inside the scenario directory when relative ("@/x")
	Procs   []*Proc
	Tags    []string // known-finding reproductions etc.
	Note    string
	// DefaultLoc: the scenario uses go-snaps' default location (next to the test file), so it runs
	// in a driver copy of its own; Init paths are relative to the driver directory and the
	// projected directory is <driver>/__snapshots__.
	OwnProc    bool // bulk scenario that must not share its driver process (a deadlocked gated run poisons the process-wide lock)
	DefaultLoc bool
	// WatchRel: further directories (relative to the package directory of the driver variant) to
	// project, for relative Dir options (C11)
	WatchRel []string
}

// Result of running a scenario
type ScenarioRun struct {
	Sc  *Scenario
	Dir string        // absolute scenario directory
	Raw [][]*RawEvent // per process
	Err error
	Drv string // driver directory the scenario ran in (tdir of the contract)
}

func (s *Scenario) stepByID() map[string]*Step {
	m := map[string]*Step{}
	var walk func(steps []*Step)
	walk = func(steps []*Step) {
		for _, st := range steps {
			m[st.ID] = st
			walk(st.Steps)
			for _, g := range st.Gs {
				walk(g.Steps)
			}
		}
	}
	for _, p := range s.Procs {
		walk(p.Steps)
		for _, td := range p.Tests {
			for _, ex := range td.Execs {
				walk(ex)
			}
		}
	}
	return m
}

// assignIDs gives every step a unique id "p<proc>.<n>"
func (s *Scenario) assignIDs() {
	for pi, p := range s.Procs {
		n := 0
		var walk func(steps []*Step)
		walk = func(steps []*Step) {
			for _, st := range steps {
				n++
				st.ID = fmt.Sprintf("p%d.%d", pi, n)
				walk(st.Steps)
				for _, g := range st.Gs {
					walk(g.Steps)
				}
			}
		}
		walk(p.Steps)
		names := make([]string, 0, len(p.Tests))
		for k := range p.Tests {
			names = append(names, k)
		}
		sort.Strings(names)
		for _, k := range names {
			for _, ex := range p.Tests[k].Execs {
				walk(ex)
			}
		}
	}
}

// resolveCfgs turns scenario-relative directories ("@/sub") into absolute ones.
func resolveCfgs(cfgs map[string]*Cfg, scDir string) map[string]*Cfg {
	out := map[string]*Cfg{}
	for k, c := range cfgs {
		cc := *c
		if c.Dir != nil && strings.HasPrefix(*c.Dir, "@") {
			d := scDir + strings.TrimPrefix(*c.Dir, "@") // verbatim: the option may deliberately not be in cleaned form
			cc.Dir = &d
		}
		out[k] = &cc
	}
	return out
}

func writeInit(scDir string, init []InitFile) error {
	if err := os.MkdirAll(scDir, 0o755); err != nil {
		return err
	}
	for _, f := range init {
		p := filepath.Join(scDir, f.P)
		if f.IsDir {
			if err := os.MkdirAll(p, 0o755); err != nil {
				return err
			}
			continue
		}
		if err := os.MkdirAll(filepath.Dir(p), 0o755); err != nil {
			return err
		}
		if f.Role == "symlink" {
			if err := os.Symlink(string(f.Content), p); err != nil {
				return err
			}
			continue
		}
		if err := os.WriteFile(p, f.Content, 0o644); err != nil {
			return err
		}
		os.Chtimes(p, epoch, epoch)
	}
	return nil
}

var epoch = time.Unix(978307200, 0)

// runScenarios executes scenarios against the driver. Bulk processes of scenarios with identical
// process signatures share one OS process per process index; real processes run one per scenario.
func runScenarios(sc *Scratch, d *Driver, scs []*Scenario, workers int, pool ...chan *Driver) ([]*ScenarioRun, error) {
	root := sc.Sub(sc.Next("run"))
	runs := make([]*ScenarioRun, len(scs))
	groups := map[string][]int{}
	var order []string
	for i, s := range scs {
		s.assignIDs()
		runs[i] = &ScenarioRun{Sc: s, Dir: filepath.Join(root, s.ID), Raw: make([][]*RawEvent, len(s.Procs)), Drv: d.Dir}
		if s.DefaultLoc {
			if len(pool) == 0 {
				return nil, fmt.Errorf("scenario %s needs a driver pool", s.ID)
			}
		} else if err := writeInit(runs[i].Dir, s.Init); err != nil {
			return nil, err
		}
		sig := ""
		for _, p := range s.Procs {
			if p.Real || s.DefaultLoc || s.OwnProc {
				sig = fmt.Sprintf("real:%d", i) // own group
				break
			}
			sig += p.Spec.sig() + ";"
		}
		if _, ok := groups[sig]; !ok {
			order = append(order, sig)
		}
		groups[sig] = append(groups[sig], i)
	}
	// split big bulk groups so that all workers are busy
	type job struct{ idx []int }
	var jobs []job
	for _, sig := range order {
		idx := groups[sig]
		chunk := (len(idx) + workers - 1) / workers
		if chunk < 8 {
			chunk = 8
		}
		for a := 0; a < len(idx); a += chunk {
			b := a + chunk
			if b > len(idx) {
				b = len(idx)
			}
			jobs = append(jobs, job{idx[a:b]})
		}
	}
	err := parallelDo(len(jobs), workers, func(j int) error {
		idx := jobs[j].idx
		first := scs[idx[0]]
		jdir := filepath.Join(root, fmt.Sprintf("_job%d", j))
		os.MkdirAll(jdir, 0o755)
		d := d
		if first.DefaultLoc {
			d = <-pool[0]
			defer func() {
				os.RemoveAll(filepath.Join(d.Dir, "__snapshots__"))
				for _, w := range first.WatchRel {
					os.RemoveAll(filepath.Join(d.Dir, strings.Split(w, "/")[0]))
					os.RemoveAll(filepath.Join(d.Dir, "sub", "deep", strings.Split(w, "/")[0]))
				}
				os.RemoveAll(filepath.Join(d.Dir, "sub", "deep", "__snapshots__"))
				os.RemoveAll(filepath.Join(d.Dir, "abs"))
				pool[0] <- d
			}()
			r := runs[idx[0]]
			r.Drv = d.Dir
			r.Dir = d.Dir
			os.RemoveAll(filepath.Join(d.Dir, "__snapshots__"))
			if err := writeInit(d.Dir, first.Init); err != nil {
				return err
			}
		}
		for pi := range first.Procs {
			p0 := first.Procs[pi]
			script := &Script{Configs: map[string]*Cfg{}}
			tracePath := filepath.Join(jdir, fmt.Sprintf("trace%d.ndjson", pi))
			script.Trace = tracePath
			if p0.Real {
				r := runs[idx[0]]
				script.Configs = resolveCfgs(first.Configs, r.Dir)
				script.Tests = p0.Tests
				script.Clean = p0.Clean
				script.State = p0.State
				script.Watch = []string{r.Dir}
				if first.DefaultLoc {
					pkg := d.Dir
					if strings.HasPrefix(p0.Spec.Variant, "deep") {
						pkg = filepath.Join(d.Dir, "sub", "deep")
					}
					script.Watch = []string{filepath.Join(pkg, "__snapshots__")}
					for _, w := range first.WatchRel {
						script.Watch = append(script.Watch, filepath.Join(pkg, w))
					}
					if len(first.WatchRel) > 0 {
						script.Watch = append(script.Watch, filepath.Join(r.Dir, "abs"))
					}
				}
			} else {
				for _, i := range idx {
					s := scs[i]
					r := runs[i]
					for k, c := range resolveCfgs(s.Configs, r.Dir) {
						if c.House != "" {
							c.House = s.ID + "/" + c.House
						}
						script.Configs[s.ID+"/"+k] = c
					}
					h := &Hist{H: s.ID, Watch: r.Dir}
					for _, st := range s.Procs[pi].Steps {
						cp := *st
						if cp.Cfg != "" {
							cp.Cfg = s.ID + "/" + cp.Cfg
						}
						if len(cp.Gs) > 0 { // goroutines of a conc step carry steps of their own
							var gs []*ConcG
							for _, g := range cp.Gs {
								ng := &ConcG{G: g.G, Test: g.Test}
								for _, gst := range g.Steps {
									gcp := *gst
									if gcp.Cfg != "" {
										gcp.Cfg = s.ID + "/" + gcp.Cfg
									}
									ng.Steps = append(ng.Steps, &gcp)
								}
								gs = append(gs, ng)
							}
							cp.Gs = gs
						}
						h.Steps = append(h.Steps, &cp)
					}
					script.Hists = append(script.Hists, h)
				}
			}
			sb, _ := json.Marshal(script)
			scriptPath := filepath.Join(jdir, fmt.Sprintf("script%d.json", pi))
			if err := os.WriteFile(scriptPath, sb, 0o644); err != nil {
				return err
			}
			spec := p0.Spec
			if !p0.Real && spec.Run == "" {
				spec.Run = "^TestBulk$"
			}
			evs, err := runDriver(d, &spec, scriptPath, tracePath, 180*time.Second)
			if err != nil {
				for _, i := range idx {
					runs[i].Err = err
				}
				if he, ok := err.(*HangErr); ok {
					// the history that was running: the last one that left an event, and its successor
					last := ""
					for _, e := range evs {
						if e != nil && e.H != "" {
							last = e.H
						}
					}
					var cand []*Scenario
					for k, i := range idx {
						if scs[i].ID == last || (last == "" && k == 0) {
							cand = append(cand, scs[i])
							if k+1 < len(idx) {
								cand = append(cand, scs[idx[k+1]])
							}
							break
						}
					}
					if len(cand) == 0 {
						cand = append(cand, scs[idx[0]])
					}
					recordHang(he.H, cand)
					return inconclusive("%v", err)
				}
				return err
			}
			if p0.Real {
				runs[idx[0]].Raw[pi] = evs
			} else {
				byH := map[string][]*RawEvent{}
				var start *RawEvent
				for _, e := range evs {
					if e.Ev == "start" {
						start = e
					}
					if e.H != "" {
						byH[e.H] = append(byH[e.H], e)
					}
				}
				for _, i := range idx {
					runs[i].Raw[pi] = append([]*RawEvent{start}, byH[scs[i].ID]...)
				}
			}
		}
		return nil
	})
	return runs, err
}

func shortHash(b []byte) string {
	h := sha256.Sum256(b)
	return hex.EncodeToString(h[:6])
}
