package main

import (
	"fmt"
	"regexp"
	"strings"
)

// C08: Clean keeps snapshots of tests that were skipped or filtered out (DESIGN.md §6 C08).

func init() {
	register("C08", "model_checking", "contract-level protection relation (TraceSeq/Contract: SkipProtected, FilteredOut) judged by TLC on traces of real runs; 'did not run' comes from the real runner's begin events; patterns and skip sets generated per program; known findings by signature (K3, K4, K7, F5)", checkC08)
}

// pattern family for a program: plain, anchored, alternation, substring, multi-level, digits
func (g *fgen) runPattern(p *rprogram) string {
	top := func() *rnode { return p.roots[g.r.Intn(len(p.roots))] }
	t := top()
	sub := ""
	if len(t.subs) > 0 {
		sub = regexp.QuoteMeta(t.subs[g.r.Intn(len(t.subs))].name)
	}
	any := topTests[g.r.Intn(len(topTests))]
	switch g.r.Intn(16) {
	case 14, 15:
		// end-anchored: selects top-level tests by their last letters; subtests of OTHER tests that
		// end the same way did not run and the anchor keeps their ids from matching
		if sub != "" {
			for _, r := range p.roots {
				if r != t {
					return "(" + sub + "|" + r.name + ")$" // r runs; t's subtest only shares the ending
				}
			}
			return sub + "$"
		}
		return g.pick("x$", "B$", "1$")
	case 0:
		return "^" + t.name + "$"
	case 1:
		return t.name + "$"
	case 2:
		return t.name
	case 3:
		return "^(" + t.name + "|" + any + ")$"
	case 4:
		if sub != "" {
			return "^" + t.name + "$/^" + sub + "$"
		}
		return "^" + any + "$"
	case 5:
		if sub != "" {
			return t.name + "/" + sub
		}
		return any + "$"
	case 6:
		if sub != "" {
			return "Test.*/" + sub
		}
		return "Test[AB]$"
	case 7:
		return t.name + "/.*"
	case 8:
		return g.pick("1", "2", "_1") // digits: can match the ordinal inside an id (K3)
	case 9:
		if sub != "" {
			return t.name + ".*" + sub // crosses the "/" when matched unsplit (K7)
		}
		return "Test.*x"
	case 10:
		if sub != "" {
			return "/" + sub
		}
		return "B"
	case 11:
		return "^Test[A-Z]$"
	case 12:
		return "^" + any + "$"
	default:
		return "A"
	}
}

func genSkipRun(g *fgen, n int, modes []string, skipProb, runProb float64) []*Scenario {
	var out []*Scenario
	var standaloneRoot *rnode
	for i := 0; i < n; i++ {
		cfgs := []string{"", "", "", "fn"}
		p := g.rprogram([]string{"snapshot", "snapshot", "json", "yaml", "ssnap", "sjson"}, cfgs, 4, 3)
		// every node makes at least one call so that there is something to protect
		var fill func(n *rnode)
		fill = func(n *rnode) {
			if len(n.calls) == 0 {
				n.calls = append(n.calls, g.call([]string{"snapshot"}, []string{""}))
			}
			for _, s := range n.subs {
				fill(s)
			}
		}
		for _, r := range p.roots {
			fill(r)
		}
		if g.chance(0.35) {
			// one subtree that records standalone files only: selecting just this subtree leaves the
			// multi-entry file of the other tests unaddressed (file-level protection must hold)
			var alone func(n *rnode)
			alone = func(n *rnode) {
				for i := range n.calls {
					n.calls[i] = g.call([]string{"ssnap", "sjson"}, []string{""})
				}
				for _, s := range n.subs {
					alone(s)
				}
			}
			alone(p.roots[0])
			if len(p.roots[0].subs) == 0 {
				p.roots[0].subs = append(p.roots[0].subs, &rnode{name: "smoke", calls: []*callSpec{g.call([]string{"ssnap"}, []string{""})}})
			}
			standaloneRoot = p.roots[0]
		} else {
			standaloneRoot = nil
		}
		sc := &Scenario{ID: g.id(), Configs: stdConfigs(), DefaultLoc: true}
		if g.chance(0.5) {
			f := staleFile(g, "main_test")
			f.P = "__snapshots__/main_test.snap"
			sc.Init = append(sc.Init, f)
		}
		if g.chance(0.3) {
			sc.Init = append(sc.Init, InitFile{P: "__snapshots__/TestGone_1.snap", Content: []byte("stale standalone"), Role: "alone", Owner: "TestGone"})
		}
		sc.Procs = append(sc.Procs, &Proc{Spec: ProcSpec{}, Real: true, Tests: p.tests(), State: "call"})
		g.skipProb, g.parProb, g.badProb = skipProb, 0, 0
		q := &rprogram{}
		for _, r := range p.roots {
			q.roots = append(q.roots, g.rmutate(r, 0.1, 0.05, 0.1, []string{"snapshot"}))
		}
		if skipProb > 0 && g.chance(0.2) {
			// two skipped siblings whose names differ by a byte that sorts below "/", one of them
			// with subtests of its own: a skip protects exactly that test and its descendants
			kid := func(n string) *rnode {
				return &rnode{name: n, calls: []*callSpec{g.call([]string{"snapshot"}, []string{""})}}
			}
			v1 := &rnode{name: "v1", skip: "Skip", calls: []*callSpec{g.call([]string{"snapshot"}, []string{""})}, subs: []*rnode{kid("list"), kid("get")}}
			v11 := &rnode{name: g.pick("v1.1", "v1-beta", "v1#x"), skip: "SkipNow", calls: []*callSpec{g.call([]string{"snapshot"}, []string{""})}}
			pv1 := &rnode{name: "v1", calls: v1.calls, subs: v1.subs}
			pv11 := &rnode{name: v11.name, calls: v11.calls}
			if g.chance(0.5) {
				p.roots[0].subs = append(p.roots[0].subs, pv1, pv11)
				q.roots[0].subs = append(q.roots[0].subs, v1, v11)
			} else {
				// the longer name is declared (and skipped) first
				p.roots[0].subs = append(p.roots[0].subs, pv11, pv1)
				q.roots[0].subs = append(q.roots[0].subs, v11, v1)
			}
			sc.Procs[0].Tests = p.tests()
		}
		spec := procSpec(modes[g.r.Intn(len(modes))])
		if g.chance(runProb) {
			spec.Run = g.runPattern(q)
			if standaloneRoot != nil && g.chance(0.7) {
				r0 := q.roots[0]
				sub := ".*"
				if len(r0.subs) > 0 && g.chance(0.6) {
					sub = regexp.QuoteMeta(r0.subs[0].name)
				}
				spec.Run = g.pick("^"+r0.name+"$/"+sub, r0.name+"$/"+sub, "^"+r0.name+"$")
			}
		}
		if g.chance(0.2) {
			spec.Count = 2
		}
		srt := g.chance(0.4)
		sc.Procs = append(sc.Procs, &Proc{Spec: spec, Real: true, Tests: q.tests(), Clean: &CleanDef{Sort: srt}, State: "call"})
		sc.Program = q.names()
		var skipped []string
		var walk func(n *rnode, pre string)
		walk = func(n *rnode, pre string) {
			full := n.name
			if pre != "" {
				full = pre + "/" + n.name
			}
			if n.skip != "" {
				skipped = append(skipped, full)
			}
			for _, s := range n.subs {
				walk(s, full)
			}
		}
		for _, r := range q.roots {
			walk(r, "")
		}
		sc.Note = fmt.Sprintf("record; -run %q skipped=[%s] mode=%s sort=%v count=%d; tests=%s", spec.Run, strings.Join(skipped, ","), spec.updvarClass(), srt, spec.Count, strings.Join(rootNames(q), ","))
		out = append(out, sc)
	}
	return out
}

func checkC08(c *CheckCtx) error {
	c.Rule = "(program, skipped subset, -run pattern, Clean mode) scenarios at go-snaps' default location (one driver copy per worker): patterns from the family plain/anchored/alternation/substring/multi-level/digits/cross-level; non-trivial = distinct scenario in which at least one entry or file belongs to a test that did not run"
	c.Assumptions = []string{cleanAssumptions, "'did not run' = no begin event from the real runner; 'skipped' = a skip event of the test or an ancestor", "programs live in one test file (main_test.go) of the scripted driver"}
	if err := c.cleanModel(); err != nil {
		return err
	}
	g := newFgen(c.Seed*7+3, "k")
	scs := genSkipRun(g, c.pick(160, 3000), []string{"default", "clean", "update", "ci"}, 0.0, 1.0)
	scs = append(scs, genSkipRun(g, c.pick(120, 2000), []string{"default", "clean", "update"}, 0.35, 0.0)...)
	scs = append(scs, genSkipRun(g, c.pick(80, 1500), []string{"default", "clean"}, 0.25, 0.7)...)
	scs = append(scs, otherFilesRun()...)
	for _, s := range scs {
		c.nontrivial(s.Note)
	}
	c.NontrivialStat = "cleans_with_protected"
	c.sample(map[string]any{"source": "generated skip/-run scenario", "note": scs[0].Note})
	c.sample(map[string]any{"source": "generated skip/-run scenario", "note": scs[len(scs)-1].Note})
	return c.runSeq(scs)
}

// otherFilesRun: snapshot files that belong to OTHER test files of the package (other_test.go, and
// pay.v2_test.go whose name has a dot): with a -run filter that selects none of the tests those files
// declare, nothing in this run addressed them and Clean has to leave them alone.
func otherFilesRun() []*Scenario {
	var out []*Scenario
	n := 0
	for _, via := range []string{"dotfile", "otherfile"} {
		for _, mode := range []string{"clean", "default"} {
			for _, run := range []string{"^TestB$", "TestB", "^TestB$/^x$"} {
				n++
				sc := &Scenario{ID: fmt.Sprintf("of%d", n), Configs: stdConfigs(), DefaultLoc: true, Program: append([]string{}, topTests...)}
				tests := func() map[string]*TDef {
					return map[string]*TDef{
						"TestA": {Execs: [][]*Step{{{Op: "match", API: "snapshot", Cfg: "", Val: strVal("through the other file"), Via: via}, {Op: "match", API: "snapshot", Cfg: "", Val: strVal("direct")}}}},
						"TestB": {Execs: [][]*Step{{{Op: "match", API: "snapshot", Cfg: "", Val: strVal("b")}, {Op: "sub", Name: "x", Steps: []*Step{{Op: "match", API: "snapshot", Cfg: "", Val: strVal("bx")}}}}}},
					}
				}
				sc.Procs = append(sc.Procs, &Proc{Spec: ProcSpec{}, Real: true, State: "call", Tests: tests()})
				spec := cleanModeSpec(mode)
				spec.Run = run
				sc.Procs = append(sc.Procs, &Proc{Spec: spec, Real: true, State: "call", Clean: &CleanDef{}, Tests: tests()})
				sc.Procs = append(sc.Procs, &Proc{Spec: ProcSpec{CI: "CI"}, Real: true, State: "call", Tests: tests()})
				sc.Note = fmt.Sprintf("snapshot file of another test file (%s), -run %q, mode %s", via, run, mode)
				out = append(out, sc)
			}
		}
	}
	return out
}
