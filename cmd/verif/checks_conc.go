package main

import (
	"bytes"
	"context"
	"encoding/base64"
	"encoding/json"
	"fmt"
	"os"
	"os/exec"
	"path/filepath"
	"regexp"
	"sort"
	"strconv"
	"strings"
	"sync"
	"time"
)

// C06: parallel tests sharing a snapshot file are serialisable (DESIGN.md §5).

func init() {
	register("C06", "model_checking", "per-branch primitive programs are EXTRACTED from the current code through the scheduler gate (imports of package snaps rewritten to yield shims via go test -overlay), TLC interleaves them exhaustively (GoSnapsConc: Serialisable, NeverTorn, NoDeadlock under Go's writer-preferring RWMutex), counterexample schedules are replayed on the real code, schedules of the real code are enumerated depth-first with bounded preemption and judged by TLC (MC_ConcCheck), their primitive logs are validated against GoSnapsConc (TraceConc); Go race detector on parallel programs", checkC06)
}

var concKinds = []string{"create", "match", "mismatch", "update"}

type concCall struct {
	G, Test, Kind, Value string
	Alias                bool // the goroutine reaches the shared directory through a symbolic link (another spelling of the same file)
	Second               bool // the goroutine makes a second, creating call afterwards (ordinal 2)
}

// what the shared file / directory holds before the calls, and the step of one call
func concInit(calls []concCall, order []int, standalone bool) []InitFile {
	var out []InitFile
	var b strings.Builder
	for _, i := range order {
		c := calls[i]
		if c.Kind == "create" {
			continue
		}
		stored := c.Value
		if c.Kind != "match" {
			stored = "old value of " + c.Test
		}
		if standalone {
			out = append(out, InitFile{P: "snaps/" + strings.ReplaceAll(c.Test, "/", "_") + "_1.snap", Content: []byte(stored), Role: "alone", Owner: c.Test})
		} else {
			b.WriteString("\n[" + c.Test + " - 1]\n" + stored + "\n---\n")
		}
	}
	if !standalone && b.Len() > 0 {
		out = append(out, InitFile{P: "snaps/main_test.snap", Content: []byte(b.String()), Role: "multi"})
	}
	return out
}

func concStep(c concCall, standalone bool) *Step {
	cfg := "c"
	switch c.Kind {
	case "mismatch":
		cfg = "uf"
	case "update":
		cfg = "ut"
	}
	api := "snapshot"
	if standalone {
		api = "ssnap"
	}
	if c.Alias {
		cfg = "al_" + cfg
	}
	return &Step{Op: "match", Name: c.Test, API: api, Cfg: cfg, Val: strVal(c.Value)}
}

func concScenario(id string, calls []concCall, order []int, standalone bool, schedule []string) *Scenario {
	sc := &Scenario{ID: id, Configs: stdConfigs(), OwnProc: true}
	sc.Init = concInit(calls, order, standalone)
	for _, c := range calls {
		if c.Alias {
			sc.Init = append(sc.Init, InitFile{P: "snaps", IsDir: true}, InitFile{P: "alias", Content: []byte("snaps"), Role: "symlink"})
			sc.Configs["al_c"] = &Cfg{Dir: sp("@/alias")}
			sc.Configs["al_ut"] = &Cfg{Dir: sp("@/alias"), Update: bp(true)}
			sc.Configs["al_uf"] = &Cfg{Dir: sp("@/alias"), Update: bp(false)}
			break
		}
	}
	st := &Step{Op: "conc", Schedule: schedule}
	for _, c := range calls {
		steps := []*Step{concStep(c, standalone)}
		if c.Second {
			steps = append(steps, concStep(concCall{G: c.G, Test: c.Test, Kind: "create", Value: "second value of " + c.Test}, standalone))
		}
		st.Gs = append(st.Gs, &ConcG{G: c.G, Test: c.Test, Steps: steps})
		sc.Program = append(sc.Program, c.Test)
	}
	sc.Procs = append(sc.Procs, &Proc{Spec: ProcSpec{}, Steps: []*Step{st}})
	return sc
}

type gateRec struct {
	G       string   `json:"g"`
	Op      string   `json:"op"`
	Arg     string   `json:"arg"`
	Enabled []string `json:"enabled"`
}

type concRun struct {
	Log      []gateRec
	Note     string
	Outcomes map[string][]string // test -> outcomes of its calls in order
	Final    []byte              // the shared multi-entry file afterwards
	FinalAll map[string][]byte
}

func readConcRun(r *ScenarioRun) (*concRun, error) {
	cr := &concRun{Outcomes: map[string][]string{}, FinalAll: map[string][]byte{}}
	found := false
	for _, e := range r.Raw[0] {
		if e == nil {
			continue
		}
		switch e.Ev {
		case "match":
			if e.Panic != "" {
				return nil, inconclusive("gated call panicked: %s", e.Panic)
			}
			logs := decodeAll(e.Logs)
			o := "malformed"
			switch {
			case len(e.Errs) == 0 && len(logs) == 0:
				o = "passed"
			case len(e.Errs) == 0 && len(logs) == 1 && logKind(logs) == "added":
				o = "added"
			case len(e.Errs) == 0 && len(logs) == 1 && logKind(logs) == "updated":
				o = "updated"
			case len(e.Errs) == 1 && len(logs) == 0:
				o = "failed"
			}
			cr.Outcomes[e.T] = append(cr.Outcomes[e.T], o)
		case "concend":
			found = true
			cr.Note = e.Note
			b, _ := base64.StdEncoding.DecodeString(e.Out)
			json.Unmarshal(b, &cr.Log)
			for _, d := range e.Dirs {
				for _, f := range d.Files {
					if f.IsDir {
						continue
					}
					fb, _ := base64.StdEncoding.DecodeString(f.B64)
					cr.FinalAll[f.P] = fb
					if f.P == "snaps/main_test.snap" {
						cr.Final = fb
					}
				}
			}
		}
	}
	if !found {
		return nil, inconclusive("gated run of %s left no concend event", r.Sc.ID)
	}
	return cr, nil
}

func opsOf(log []gateRec) []string {
	var out []string
	for _, r := range log {
		out = append(out, r.Op)
	}
	return out
}

// extractPrograms records each call kind solo through the gate: the primitive sequence between
// entry and return (DESIGN.md §5.3).
func (c *CheckCtx) extractPrograms(d *Driver, standalone bool) (map[string][]string, error) {
	progs := map[string][]string{}
	for round := 0; round < 2; round++ {
		var scs []*Scenario
		for i, k := range concKinds {
			calls := []concCall{{G: "A", Test: "TestA", Kind: k, Value: "value of A"}}
			scs = append(scs, concScenario(fmt.Sprintf("x%d_%d", round, i), calls, []int{0}, standalone, nil))
		}
		runs, err := runScenarios(c.Sc, d, scs, c.Workers)
		if err != nil {
			return nil, err
		}
		for i, r := range runs {
			cr, err := readConcRun(r)
			if err != nil {
				return nil, err
			}
			if cr.Note == "deadlock" {
				// the scheduler's own lock picture: the only goroutine waits for a lock it holds itself.
				// Not an extraction problem: the real executions below are judged (P_Completed).
				return nil, fmt.Errorf("solo execution of %s blocks on a lock it already holds (%v)", concKinds[i], opsOf(cr.Log))
			}
			if cr.Note != "" {
				return nil, inconclusive("solo recording of %s ended with %q", concKinds[i], cr.Note)
			}
			ops := opsOf(cr.Log)
			if prev, ok := progs[concKinds[i]]; ok && strings.Join(prev, ",") != strings.Join(ops, ",") {
				return nil, fmt.Errorf("ambiguous extraction for %s: %v vs %v", concKinds[i], prev, ops)
			}
			progs[concKinds[i]] = ops
		}
	}
	return progs, nil
}

func commonPrefix(progs map[string][]string) int {
	n := len(progs["match"])
	for _, k := range concKinds {
		p := progs[k]
		i := 0
		for i < n && i < len(p) && p[i] == progs["match"][i] {
			i++
		}
		n = i
	}
	return n
}

func tlaSeq(xs []string) string {
	q := make([]string, len(xs))
	for i, x := range xs {
		q[i] = strconv.Quote(x)
	}
	return "<<" + strings.Join(q, ", ") + ">>"
}

// modelCheckPair writes the generated MC module for two calls and runs TLC.
func (c *CheckCtx) modelCheckConc(progs map[string][]string, calls []concCall, order []int, tag string) (*TLCResult, string, error) {
	dir, err := specDir(c.Sc, c.Sc.Next("mcc"))
	if err != nil {
		return nil, "", err
	}
	b := concGenModule("MC_Conc_gen", "GoSnapsConc", progs, calls, order)
	os.WriteFile(filepath.Join(dir, "MC_Conc_gen.tla"), []byte(b), 0o644)
	cfg := "SPECIFICATION Spec\n" + concConstants + "INVARIANTS Serialisable NeverTorn NoDeadlock\nCHECK_DEADLOCK FALSE\n"
	os.WriteFile(filepath.Join(dir, "MC_Conc.cfg"), []byte(cfg), 0o644)
	dump := filepath.Join(dir, "cex.json")
	res, err := runTLC(dir, "MC_Conc_gen.tla", "MC_Conc.cfg", 4, 10*time.Minute, "-dumpTrace", "json", dump)
	if err != nil {
		return res, "", err
	}
	return res, dump, nil
}

// concGenModule writes the constants a .cfg file cannot express (sequences, functions)
func concGenModule(name, extends string, progs map[string][]string, calls []concCall, order []int) string {
	var b strings.Builder
	fmt.Fprintf(&b, "---- MODULE %s ----\nEXTENDS %s\n", name, extends)
	var gs, tests, vals, upds, nocr []string
	for _, cc := range calls {
		nocr = append(nocr, fmt.Sprintf("%s :> %s", strconv.Quote(cc.G), map[bool]string{true: "TRUE", false: "FALSE"}[cc.Kind == "mismatch"]))
		gs = append(gs, strconv.Quote(cc.G))
		tests = append(tests, fmt.Sprintf("%s :> %s", strconv.Quote(cc.G), strconv.Quote(cc.Test)))
		vals = append(vals, fmt.Sprintf("%s :> %s", strconv.Quote(cc.G), tlaSeq(strings.Split(cc.Value, "\n"))))
		upds = append(upds, fmt.Sprintf("%s :> %s", strconv.Quote(cc.G), map[bool]string{true: "TRUE", false: "FALSE"}[cc.Kind == "update"]))
	}
	var initLines []string
	for _, f := range concInit(calls, order, false) {
		ls, _ := splitFile(f.Content)
		initLines = ls
	}
	fmt.Fprintf(&b, "mcGs == {%s}\nmcTestOf == %s\nmcValOf == %s\nmcUpdOf == %s\nmcNoCreate == %s\n", strings.Join(gs, ", "), strings.Join(tests, " @@ "), strings.Join(vals, " @@ "), strings.Join(upds, " @@ "), strings.Join(nocr, " @@ "))
	fmt.Fprintf(&b, "mcInit == [lines |-> %s, nl |-> %s]\n", tlaSeq(initLines), map[bool]string{true: "TRUE", false: "FALSE"}[len(initLines) > 0])
	var pk []string
	for _, k := range concKinds {
		pk = append(pk, fmt.Sprintf("%s :> %s", strconv.Quote(k), tlaSeq(progs[k])))
	}
	fmt.Fprintf(&b, "mcProg == %s\nmcPrefix == %d\n====\n", strings.Join(pk, " @@ "), commonPrefix(progs))
	return b.String()
}

const concConstants = "CONSTANTS\n  Gs <- mcGs\n  TestOf <- mcTestOf\n  ValOf <- mcValOf\n  UpdOf <- mcUpdOf\n  NoCreate <- mcNoCreate\n  InitFile <- mcInit\n  Prog <- mcProg\n  PrefixLen <- mcPrefix\n"

// validateConcLogs: the primitive logs of real gated executions of ONE configuration must be
// behaviours of GoSnapsConc with the extracted programs (TraceConc.tla). Disagreement = MODEL-DRIFT.
func (c *CheckCtx) validateConcLogs(progs map[string][]string, cases []*concCase) (int, []string, error) {
	if len(cases) == 0 {
		return 0, nil, nil
	}
	dir, err := specDir(c.Sc, c.Sc.Next("tc"))
	if err != nil {
		return 0, nil, err
	}
	calls, order := cases[0].calls, cases[0].order
	os.WriteFile(filepath.Join(dir, "MC_TraceConc_gen.tla"), []byte(concGenModule("MC_TraceConc_gen", "TraceConc", progs, calls, order)), 0o644)
	os.WriteFile(filepath.Join(dir, "TraceConc.cfg"), []byte("SPECIFICATION TSpec\n"+concConstants+"CHECK_DEADLOCK FALSE\n"), 0o644)
	a := newAbsCtx(c.Sc.Root, nil)
	var buf bytes.Buffer
	enc := json.NewEncoder(&buf)
	enc.SetEscapeHTML(false)
	n := 0
	for i, cs := range cases {
		if cs.run.Note != "" {
			continue
		}
		log := []any{}
		for _, r := range cs.run.Log {
			log = append(log, map[string]string{"g": r.G, "op": r.Op})
		}
		fl, fnl := splitFile(cs.run.Final)
		outs := map[string]string{}
		for _, cc := range cs.calls {
			o := "none"
			if len(cs.run.Outcomes[cc.Test]) > 0 {
				o = cs.run.Outcomes[cc.Test][0]
			}
			outs[cc.G] = o
		}
		enc.Encode(map[string]any{"n": i, "log": log, "final": map[string]any{"lines": a.lines(fl), "nl": fnl}, "outs": outs})
		n++
	}
	if n == 0 {
		return 0, nil, nil
	}
	os.WriteFile(filepath.Join(dir, "concruns.ndjson"), buf.Bytes(), 0o644)
	res, err := runTLC(dir, "MC_TraceConc_gen.tla", "TraceConc.cfg", 1, 10*time.Minute)
	if err != nil {
		return 0, nil, err
	}
	rb, err := os.ReadFile(filepath.Join(dir, "result.json"))
	if err != nil {
		return 0, nil, inconclusive("TraceConc wrote no result:\n%s", tail([]byte(res.Output), 1500))
	}
	var out struct {
		Bad []struct {
			Run  int    `json:"run"`
			At   int    `json:"at"`
			What string `json:"what"`
			Op   string `json:"op"`
			G    string `json:"g"`
		} `json:"bad"`
		Runs int `json:"runs"`
	}
	if err := json.Unmarshal(rb, &out); err != nil {
		return 0, nil, err
	}
	var drift []string
	for _, b := range out.Bad {
		kinds := []string{}
		for _, cc := range calls {
			kinds = append(kinds, cc.G+":"+cc.Kind)
		}
		drift = append(drift, fmt.Sprintf("action=%s.%s (%s; calls %v, schedule %v)", b.G, b.Op, b.What, kinds, scheduleOfLog(cases[b.Run].run.Log)))
	}
	os.RemoveAll(dir)
	return out.Runs, drift, nil
}

// scheduleOfDump reads the goroutine sequence of a TLC counterexample (the `step` variable)
func scheduleOfDump(path string) ([]string, error) {
	b, err := os.ReadFile(path)
	if err != nil {
		return nil, err
	}
	// {"counterexample":{"action":[[[n, state], {action}, [n+1, state]], ...]}}
	var d struct {
		Counterexample struct {
			Action [][]json.RawMessage `json:"action"`
		} `json:"counterexample"`
	}
	if err := json.Unmarshal(b, &d); err != nil {
		return nil, err
	}
	var out []string
	for _, tr := range d.Counterexample.Action {
		if len(tr) < 3 {
			continue
		}
		var post []json.RawMessage
		if err := json.Unmarshal(tr[2], &post); err != nil || len(post) < 2 {
			continue
		}
		var st struct {
			Step struct {
				G string `json:"g"`
			} `json:"step"`
		}
		if err := json.Unmarshal(post[1], &st); err != nil {
			continue
		}
		if st.Step.G != "" {
			out = append(out, st.Step.G)
		}
	}
	return out, nil
}

type concCase struct {
	calls    []concCall
	order    []int
	schedule []string
	run      *concRun
	id       string
}

// judgeConc lets TLC evaluate MC_ConcCheck on real executions.
func (c *CheckCtx) judgeConc(cases []*concCase, label string) error {
	if len(cases) == 0 {
		return nil
	}
	dir, err := specDir(c.Sc, c.Sc.Next("cc"))
	if err != nil {
		return err
	}
	a := newAbsCtx(c.Sc.Root, nil)
	var buf bytes.Buffer
	enc := json.NewEncoder(&buf)
	enc.SetEscapeHTML(false)
	for i, cs := range cases {
		var initB []byte
		for _, f := range concInit(cs.calls, cs.order, false) {
			initB = f.Content
		}
		il, inl := splitFile(initB)
		fl, fnl := splitFile(cs.run.Final)
		calls := []any{}
		outOf := func(t string, k int) string {
			if k < len(cs.run.Outcomes[t]) {
				return cs.run.Outcomes[t][k]
			}
			return "none"
		}
		for _, cc := range cs.calls {
			calls = append(calls, map[string]any{"t": cc.Test, "k": 1, "v": a.valueLines(cc.Value), "upd": cc.Kind == "update", "out": outOf(cc.Test, 0), "kind": cc.Kind})
			if cc.Second {
				calls = append(calls, map[string]any{"t": cc.Test, "k": 2, "v": a.valueLines("second value of " + cc.Test), "upd": false, "out": outOf(cc.Test, 1), "kind": "create"})
			}
		}
		rec := map[string]any{"n": i, "init": map[string]any{"lines": a.lines(il), "nl": inl}, "final": map[string]any{"lines": a.lines(fl), "nl": fnl},
			"calls": calls, "note": cs.run.Note, "schedule": append([]string{}, cs.schedule...)}
		if err := enc.Encode(rec); err != nil {
			return err
		}
	}
	os.WriteFile(filepath.Join(dir, "conccases.ndjson"), buf.Bytes(), 0o644)
	res, err := runTLC(dir, "MC_ConcCheck.tla", "MC_ConcCheck.cfg", c.Workers, 20*time.Minute, "-continue")
	if err != nil {
		return err
	}
	c.model("MC_ConcCheck.cfg ["+label+"]", res, false, fmt.Sprintf("%d real gated executions judged", len(cases)))
	c.Validated += len(cases)
	c.Evaluations += len(cases)
	if res.Violation {
		re := regexp.MustCompile(`(?s)Invariant (\w+) is violated.*?i = (\d+)`)
		seen := map[string]int{}
		for _, m := range re.FindAllStringSubmatch(res.Output, -1) {
			idx, _ := strconv.Atoi(m[2])
			cs := cases[idx-1]
			if strings.HasPrefix(cs.run.Note, "infeasible") {
				continue // the given schedule cannot be followed by this code: nothing was observed
			}
			seen[m[1]]++
			if seen[m[1]] > 2 {
				continue
			}
			kinds := []string{}
			for _, cc := range cs.calls {
				kinds = append(kinds, cc.G+":"+cc.Kind)
			}
			what := fmt.Sprintf("[%s] calls=%v schedule=%v outcomes=%v final=%q note=%q", m[1], kinds, scheduleOfLog(cs.run.Log), cs.run.Outcomes, clip(string(cs.run.Final)), cs.run.Note)
			extra, _ := json.Marshal(map[string]any{"calls": cs.calls, "order": cs.order, "schedule": scheduleOfLog(cs.run.Log), "invariant": m[1]})
			c.Violations = append(c.Violations, &Violation{Prop: "C06", What: what, Kind: "conc", Extra: extra})
		}
	}
	return nil
}

func scheduleOfLog(log []gateRec) []string {
	var out []string
	for _, r := range log {
		out = append(out, r.G)
	}
	return out
}

// enumerate schedules of the real code depth-first with a preemption bound (stateless search:
// every execution is a fresh process run with a schedule prefix, the default policy completes it)
func (c *CheckCtx) enumerateSchedules(d *Driver, calls []concCall, order []int, bound, maxRuns int, tag string) ([]*concCase, error) {
	type item struct {
		prefix []string
	}
	queue := []item{{nil}}
	seen := map[string]bool{"": true}
	var out []*concCase
	n := 0
	for len(queue) > 0 && len(out) < maxRuns {
		batch := queue
		if len(batch) > 64 {
			batch = batch[:64]
		}
		queue = queue[len(batch):]
		var scs []*Scenario
		for _, it := range batch {
			n++
			scs = append(scs, concScenario(fmt.Sprintf("%s_%d", tag, n), calls, order, false, it.prefix))
		}
		runs, err := runScenarios(c.Sc, d, scs, c.Workers)
		if err != nil {
			return nil, err
		}
		for bi, r := range runs {
			cr, err := readConcRun(r)
			if err != nil {
				return nil, err
			}
			out = append(out, &concCase{calls: calls, order: order, schedule: batch[bi].prefix, run: cr, id: r.Sc.ID})
			// alternatives: at every step another enabled goroutine could have been released
			sched := scheduleOfLog(cr.Log)
			pre := 0
			for i := range cr.Log {
				if i > 0 && cr.Log[i].G != cr.Log[i-1].G && containsStr(cr.Log[i].Enabled, cr.Log[i-1].G) {
					pre++
				}
				if i < len(batch[bi].prefix) {
					continue // alternatives inside the given prefix were generated by the parent
				}
				for _, g := range cr.Log[i].Enabled {
					if g == cr.Log[i].G {
						continue
					}
					p := pre
					if i > 0 && containsStr(cr.Log[i].Enabled, cr.Log[i-1].G) && g != cr.Log[i-1].G {
						p++
					}
					if p > bound {
						continue
					}
					np := append(append([]string{}, sched[:i]...), g)
					key := strings.Join(np, "")
					if !seen[key] {
						seen[key] = true
						queue = append(queue, item{np})
					}
				}
			}
		}
	}
	return out, nil
}

func containsStr(xs []string, x string) bool {
	for _, y := range xs {
		if y == x {
			return true
		}
	}
	return false
}

func checkC06(c *CheckCtx) error {
	c.Rule = "schedules: (i) TLC interleaves the extracted primitive programs of every pair (quick) / triple (thorough) of call kinds {create, match, mismatch, update} in both slot orders, exhaustively; (ii) the gate scheduler enumerates schedules of the REAL code depth-first with at most 2 (quick) / 3 (thorough) preemptions per pair; non-trivial = distinct (kinds, slot order, schedule) execution with at least one context switch"
	c.Assumptions = []string{"yield points are the os / sync.RWMutex primitives of package snaps (import rewriting, DESIGN.md §5.2); plain mutexes protecting only in-memory registries pass through", "one goroutine runs between two yield points (the gate releases exactly one)", "Go-memory-model data races are below the abstraction of the specification: decided by the Go race detector on parallel programs (auxiliary)"}
	d, err := buildGatedDriver(c.Sc, "gated", false)
	if err != nil {
		return err
	}
	c.note("gated build: %s", d.Note)
	progs, err := c.extractPrograms(d, false)
	extractionOK := err == nil
	if err != nil {
		if _, ok := err.(*Inconclusive); ok {
			return err
		}
		c.Drifts = append(c.Drifts, fmt.Sprintf("extraction=%v (falling back to schedule enumeration on the real code only)", err))
	} else {
		for _, k := range concKinds {
			c.note("extracted Prog[%s] = %v", k, progs[k])
		}
		c.sample(map[string]any{"extracted_programs": progs, "common_read_prefix": commonPrefix(progs)})
	}
	// all pairs of kinds, both slot orders
	type pairT struct {
		calls []concCall
		order []int
	}
	var pairs []pairT
	for _, ka := range concKinds {
		for _, kb := range concKinds {
			calls := []concCall{{G: "A", Test: "TestA", Kind: ka, Value: "value of A\nline 2"}, {G: "B", Test: "TestB", Kind: kb, Value: "value of B"}}
			pairs = append(pairs, pairT{calls, []int{0, 1}}, pairT{calls, []int{1, 0}})
		}
	}
	if c.thorough() {
		for _, ka := range concKinds {
			for _, kb := range concKinds {
				for _, kc := range []string{"create", "update"} {
					calls := []concCall{{G: "A", Test: "TestA", Kind: ka, Value: "value of A"}, {G: "B", Test: "TestB", Kind: kb, Value: "value of B\nsecond"}, {G: "C", Test: "TestA/sub", Kind: kc, Value: "value of C"}}
					pairs = append(pairs, pairT{calls, []int{0, 1, 2}})
				}
			}
		}
	}
	var replay []*concCase
	if extractionOK {
		var tot TLCResult
		results := make([]*TLCResult, len(pairs))
		dumps := make([]string, len(pairs))
		if err := parallelDo(len(pairs), c.Workers/2, func(i int) error {
			res, dump, err := c.modelCheckConc(progs, pairs[i].calls, pairs[i].order, fmt.Sprintf("p%d", i))
			results[i], dumps[i] = res, dump
			return err
		}); err != nil {
			return err
		}
		leads := 0
		for i, res := range results {
			tot.Distinct += res.Distinct
			tot.Generated += res.Generated
			if res.Depth > tot.Depth {
				tot.Depth = res.Depth
			}
			tot.Wall += res.Wall
			if res.Violation {
				// a lead: the schedule must reproduce on the real code
				sched, err := scheduleOfDump(dumps[i])
				if err != nil || len(sched) == 0 {
					return inconclusive("TLC found %s for %v but its trace could not be read: %v", res.ViolatedBy, pairs[i].calls, err)
				}
				leads++
				replay = append(replay, &concCase{calls: pairs[i].calls, order: pairs[i].order, schedule: sched})
			}
		}
		c.model(fmt.Sprintf("MC_Conc (%d configurations of extracted programs)", len(pairs)), &tot, true, fmt.Sprintf("Serialisable, NeverTorn and NoDeadlock; %d counterexample schedule(s) exported for replay on the real code", leads))
	}
	// replay TLC's counterexamples on the real code through the gates
	if len(replay) > 0 {
		var scs []*Scenario
		for i, rc := range replay {
			scs = append(scs, concScenario(fmt.Sprintf("cex%d", i), rc.calls, rc.order, false, rc.schedule))
		}
		runs, err := runScenarios(c.Sc, d, scs, c.Workers)
		if err != nil {
			return err
		}
		for i, r := range runs {
			cr, err := readConcRun(r)
			if err != nil {
				return err
			}
			replay[i].run = cr
		}
		before := len(c.Violations)
		if err := c.judgeConc(replay, "replay of TLC counterexamples"); err != nil {
			return err
		}
		if len(c.Violations) == before {
			return inconclusive("TLC's counterexample schedule(s) on the extracted programs did not reproduce on the real code (model and code disagree about a primitive): no verdict")
		}
	}
	// two calls in one goroutine while the other test starts and finishes in between (ordinals
	// of a running test must survive another test's cleanup)
	for _, kb := range []string{"create", "update", "match"} {
		calls := []concCall{{G: "A", Test: "TestA", Kind: "create", Value: "value of A", Second: true}, {G: "B", Test: "TestB", Kind: kb, Value: "value of B"}}
		pairs = append(pairs, pairT{calls, []int{0, 1}})
	}
	// the same with prefix-related test names (TestA / TestAB): a finishing test must not reach the
	// ordinals of another test whose name merely starts with its name
	for _, kb := range []string{"create", "update"} {
		calls := []concCall{{G: "A", Test: "TestAB", Kind: "create", Value: "value of AB", Second: true}, {G: "B", Test: "TestA", Kind: kb, Value: "value of A"}}
		pairs = append(pairs, pairT{calls, []int{0, 1}})
	}
	// the same file under two spellings (one goroutine goes through a symbolic link to the
	// directory): exclusion must be per file, not per path string. Same model configurations as
	// above, so only the real schedules are enumerated.
	for _, ks := range [][2]string{{"update", "create"}, {"create", "update"}, {"update", "update"}, {"create", "create"}} {
		calls := []concCall{{G: "A", Test: "TestA", Kind: ks[0], Value: "value of A\nline 2"}, {G: "B", Test: "TestB", Kind: ks[1], Value: "value of B", Alias: true}}
		pairs = append(pairs, pairT{calls, []int{0, 1}})
	}
	// schedules enumerated directly on the real code
	logsValidated := 0
	var all []*concCase
	for i, p := range pairs {
		if len(p.calls) > 2 && i%4 != 0 {
			continue
		}
		cs, err := c.enumerateSchedules(d, p.calls, p.order, c.pick(2, 3), c.pick(120, 1500), fmt.Sprintf("e%d", i))
		if err != nil {
			return err
		}
		for _, x := range cs {
			sw := 0
			s := scheduleOfLog(x.run.Log)
			for k := 1; k < len(s); k++ {
				if s[k] != s[k-1] {
					sw++
				}
			}
			if sw > 0 {
				c.nontrivial(fmt.Sprintf("%v|%v|%s", p.calls, p.order, strings.Join(s, "")))
			}
		}
		all = append(all, cs...)
		if extractionOK && len(p.calls) == 2 && !p.calls[0].Second && !p.calls[1].Alias {
			n, drift, err := c.validateConcLogs(progs, cs)
			if err != nil {
				return err
			}
			logsValidated += n
			c.Drifts = append(c.Drifts, drift...)
		}
	}
	c.Stats["primitive_logs_validated_against_GoSnapsConc"] = logsValidated
	if len(all) > 0 {
		x := all[len(all)/2]
		c.sample(map[string]any{"calls": x.calls, "real_schedule": scheduleOfLog(x.run.Log), "primitives": opsOf(x.run.Log), "outcomes": x.run.Outcomes})
	}
	if err := c.judgeConc(all, "schedules enumerated on the real code"); err != nil {
		return err
	}
	return c.raceRun()
}

// raceRun: the same kind of programs ungated, with real t.Parallel subtests, under the Go race
// detector (the one part of C06 a TLA+ specification does not decide).
func (c *CheckCtx) raceRun() error {
	d, err := buildDriver(c.Sc, "prog_race", "-race")
	if err != nil {
		return err
	}
	g := newFgen(c.Seed*13+1, "rc")
	n := c.pick(8, 64)
	var races []string
	var mu sync.Mutex
	err = parallelDo(n, 4, func(i int) error {
		// one shared Config used by parallel subtests of several tests: Match*, Skip*, standalone
		tests := map[string]*TDef{}
		mu.Lock()
		for _, top := range []string{"TestA", "TestB", "TestC"} {
			var subs []*Step
			for k := 0; k < 4; k++ {
				var steps []*Step
				for j := 0; j < 1+g.r.Intn(3); j++ {
					api := g.pick("snapshot", "json", "yaml", "ssnap", "sjson")
					st := &Step{Op: "match", API: api, Cfg: g.pick("c", "c", "ut", "jq", "jq"), Val: seqValue(api, g.r.Intn(3))}
					if api == "json" || api == "sjson" || api == "yaml" {
						if g.chance(0.5) {
							// caller-owned []byte input, a larger document, and matchers whose callbacks run
							// while other goroutines are inside the library
							doc := fmt.Sprintf(`{"call":%d,"k":["v",1,2,3],"pad":%q}`, g.r.Intn(3), strings.Repeat("p", 2000+g.r.Intn(3000)))
							path := "call"
							if api == "yaml" {
								doc = fmt.Sprintf("call: %d\npad: %s\n", g.r.Intn(3), strings.Repeat("p", 2000+g.r.Intn(3000)))
								path = "$.call"
							}
							st.Val = bytesVal(doc)
							st.Matchers = []*Matcher{{M: "custom", Paths: []string{path}, Ret: json.RawMessage(`"<custom>"`)}, {M: "any", Paths: []string{path}}}
						}
					}
					steps = append(steps, st)
				}
				if g.chance(0.15) {
					steps = []*Step{{Op: "skip", Kind: "Skip"}}
				}
				subs = append(subs, &Step{Op: "sub", Name: fmt.Sprintf("p%d", k), Parallel: true, Steps: steps})
			}
			tests[top] = &TDef{Execs: [][]*Step{subs}}
		}
		mu.Unlock()
		dir := c.Sc.Sub(fmt.Sprintf("race%d", i))
		cfgs := stdConfigs()
		cfgs["jq"] = &Cfg{Dir: sp("@/snaps"), JSON: &JSONCfg{Width: 40, Indent: "  ", SortKeys: true}} // one JSON option value shared by all parallel users
		script := &Script{Trace: filepath.Join(dir, "trace.ndjson"), Configs: resolveCfgs(cfgs, dir), Tests: tests, Clean: &CleanDef{Sort: i%2 == 0}, State: "end", Watch: []string{filepath.Join(dir, "nothing")}}
		sb, _ := json.Marshal(script)
		sp := filepath.Join(dir, "script.json")
		os.WriteFile(sp, sb, 0o644)
		ctx, cancel := context.WithTimeout(context.Background(), 120*time.Second)
		cmd := exec.CommandContext(ctx, d.Bin, "-test.parallel", "8", "-test.count", "2", "-test.timeout", "100s")
		cmd.Dir = d.Dir
		cmd.Env = []string{"PATH=/usr/bin:/bin", "HOME=" + os.Getenv("HOME"), "VERIF_SCRIPT=" + sp, "NO_COLOR=1", "UPDATE_SNAPS=true", "GORACE=halt_on_error=0"}
		out, _ := cmd.CombinedOutput()
		cancel()
		mu.Lock()
		if bytes.Contains(out, []byte("DATA RACE")) {
			races = append(races, raceSummary(out))
		}
		c.Evaluations++
		mu.Unlock()
		return nil
	})
	if err != nil {
		return err
	}
	c.Stats["race_detector_runs"] = n
	sort.Strings(races)
	races = dedupe(races)
	for _, r := range races {
		c.Violations = append(c.Violations, &Violation{Prop: c.Prop, Kind: "race", What: "Go race detector: " + r})
	}
	c.note("race detector: %d parallel programs (2 executions each, -parallel 8), %d distinct race report(s)", n, len(races))
	return nil
}

func raceSummary(out []byte) string {
	lines := strings.Split(string(out), "\n")
	var keep []string
	for i, l := range lines {
		if strings.Contains(l, "DATA RACE") {
			for j := i + 1; j < len(lines) && j < i+12; j++ {
				t := strings.TrimSpace(lines[j])
				if strings.HasPrefix(t, "github.com/gkampitakis/go-snaps/") {
					keep = append(keep, strings.Fields(t)[0])
				}
			}
			break
		}
	}
	return strings.Join(dedupe(keep), " <- ")
}
