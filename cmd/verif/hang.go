package main

import (
	"encoding/json"
	"fmt"
	"regexp"
	"strings"
	"sync"
)

// A driver process that the Go test runner kills with "test timed out" while a goroutine sits in a
// sync lock acquisition INSIDE package snaps is an observation of the real code: a Match*/Skip*/Clean
// call that never returns. It is a violation of "every call ends in exactly one outcome" (C20) and of
// "every call gets its serial outcome" (C06); the other checks stay inconclusive on such a run.

type Hang struct {
	Where     string      `json:"where"` // innermost frame of package snaps in the blocked goroutine
	State     string      `json:"state"`
	Scenarios []*Scenario `json:"scenarios"`
}

var (
	hangMu sync.Mutex
	hangs  []*Hang
)

var goroutineHdr = regexp.MustCompile(`(?m)^goroutine \d+ \[([^\]]+)\]:$`)

// hangOf inspects the output of a dead driver process.
func hangOf(out string) *Hang {
	if !strings.Contains(out, "panic: test timed out after") {
		return nil
	}
	idx := goroutineHdr.FindAllStringSubmatchIndex(out, -1)
	for k, m := range idx {
		state := out[m[2]:m[3]]
		if !strings.HasPrefix(state, "sync.Mutex.Lock") && !strings.HasPrefix(state, "sync.RWMutex.Lock") && !strings.HasPrefix(state, "sync.RWMutex.RLock") {
			continue
		}
		end := len(out)
		if k+1 < len(idx) {
			end = idx[k+1][0]
		}
		for _, line := range strings.Split(out[m[1]:end], "\n") {
			if strings.HasPrefix(line, "github.com/gkampitakis/go-snaps/snaps.") {
				fn := line
				if i := strings.Index(fn, "("); i > 0 {
					fn = fn[:i]
				}
				return &Hang{Where: fn, State: state}
			}
		}
	}
	return nil
}

func recordHang(h *Hang, scs []*Scenario) {
	h.Scenarios = scs
	hangMu.Lock()
	hangs = append(hangs, h)
	hangMu.Unlock()
}

// hangViolations turns the recorded hangs into violations for the properties that state termination.
func (c *CheckCtx) hangViolations() bool {
	hangMu.Lock()
	defer hangMu.Unlock()
	if len(hangs) == 0 {
		return false
	}
	for _, h := range hangs {
		ids := []string{}
		for _, s := range h.Scenarios {
			ids = append(ids, s.ID)
		}
		what := fmt.Sprintf("[call.never_returns] a call into package snaps blocked until the test runner's timeout: goroutine in [%s] at %s; scenario(s) %v", h.State, h.Where, ids)
		if c.Prop != "C20" && c.Prop != "C06" {
			c.note("%s (a violation of C20/C06, reported by their checks)", what)
			continue
		}
		extra, _ := json.Marshal(h)
		v := &Violation{Prop: c.Prop, What: what, Kind: "hang", Extra: extra}
		if len(h.Scenarios) > 0 {
			v.Scenario = h.Scenarios[0]
		}
		c.Violations = append(c.Violations, v)
	}
	return len(c.Violations) > 0
}
