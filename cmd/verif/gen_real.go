package main

import (
	"fmt"
	"sort"
	"strings"
)

// Real-runner programs (DESIGN.md §4.1 D1): trees of real tests/subtests with straight-line call
// lists, executed by the real `testing` runner (so -run, -count, t.Parallel, Skip are the real ones)
// with snaps.Clean in TestMain.

var topTests = []string{"TestA", "TestAB", "TestA1", "TestB", "TestB2", "TestC", "TestZ", "Test1", "TestA_x"}

type rnode struct {
	name     string // element name
	calls    []*callSpec
	skip     string // "", "Skip", "Skipf", "SkipNow": call snaps.Skip* first
	late     bool   // ... after the first Match* call instead (the rest of the body is skipped)
	subs     []*rnode
	parallel bool
}

func (n *rnode) steps() []*Step {
	var out []*Step
	if n.skip != "" {
		if n.late && len(n.calls) > 0 {
			c := n.calls[0]
			out = append(out, &Step{Op: "match", API: c.api, Cfg: c.cfg, Val: c.val, X: c.x})
		}
		out = append(out, &Step{Op: "skip", Kind: n.skip})
		return out
	}
	for _, c := range n.calls {
		out = append(out, &Step{Op: "match", API: c.api, Cfg: c.cfg, Val: c.val, X: c.x})
	}
	for _, s := range n.subs {
		out = append(out, &Step{Op: "sub", Name: s.name, Parallel: s.parallel, Steps: s.steps()})
	}
	return out
}

// names of all tests in the tree rooted at n (full names)
func (n *rnode) names(prefix string, out *[]string) {
	full := n.name
	if prefix != "" {
		full = prefix + "/" + n.name
	}
	*out = append(*out, full)
	for _, s := range n.subs {
		s.names(full, out)
	}
}

type rprogram struct {
	roots []*rnode
}

func (p *rprogram) tests() map[string]*TDef {
	m := map[string]*TDef{}
	for _, r := range p.roots {
		m[r.name] = &TDef{Execs: [][]*Step{r.steps()}}
	}
	return m
}

func (p *rprogram) names() []string {
	var out []string
	for _, r := range p.roots {
		r.names("", &out)
	}
	// every top-level test of the driver exists in the binary even when the script gives it no steps
	seen := map[string]bool{}
	for _, n := range out {
		seen[n] = true
	}
	for _, t := range topTests {
		if !seen[t] {
			out = append(out, t)
		}
	}
	sort.Strings(out)
	return out
}

var subNames = []string{"x", "y", "b", "case_1", "case_2", "x1", "deep", "1+1", "what?", "[]int", "a(b", "x.y", "a|b", "smoke", "100%", "amount$usd", "items[0]", "get-all", "get"}

func (g *fgen) rnode(name string, depth int, apis, cfgs []string, maxCalls int) *rnode {
	n := &rnode{name: name}
	nc := g.r.Intn(maxCalls + 1)
	for i := 0; i < nc; i++ {
		n.calls = append(n.calls, g.call(apis, cfgs))
	}
	if depth > 0 && g.chance(0.5) {
		ns := 1 + g.r.Intn(2)
		perm := g.r.Perm(len(subNames))
		for i := 0; i < ns; i++ {
			n.subs = append(n.subs, g.rnode(subNames[perm[i]], depth-1, apis, cfgs, maxCalls))
		}
	}
	return n
}

func (g *fgen) rprogram(apis, cfgs []string, maxTests, maxCalls int) *rprogram {
	p := &rprogram{}
	nt := 1 + g.r.Intn(maxTests)
	perm := g.r.Perm(len(topTests))
	for i := 0; i < nt; i++ {
		p.roots = append(p.roots, g.rnode(topTests[perm[i]], 2, apis, cfgs, maxCalls))
	}
	return p
}

// clone with some values changed / calls dropped / calls added (what makes entries stale)
func (g *fgen) rmutate(n *rnode, change, drop, add float64, apis []string) *rnode {
	m := &rnode{name: n.name, parallel: n.parallel, skip: n.skip, late: n.late}
	move := g.chance(g.moveProb) // the test's snapshots move to another file: the old entries become stale
	if g.chance(g.skipProb) {
		m.skip = g.pick("Skip", "Skipf", "SkipNow")
		m.late = g.chance(0.35)
	}
	if g.chance(g.parProb) && strings.Contains(n.name, "") {
		m.parallel = true
	}
	for _, c := range n.calls {
		if g.chance(drop) {
			break // drop this and all later calls: later ordinals become stale
		}
		if g.chance(change) {
			c = g.call([]string{c.api}, []string{c.cfg})
		}
		if move && (c.api == "snapshot" || c.api == "json" || c.api == "yaml") && (c.cfg == "c" || c.cfg == "f") {
			cp := *c
			cp.cfg = map[string]string{"c": "f", "f": "c"}[c.cfg]
			c = &cp
		}
		m.calls = append(m.calls, c)
	}
	if g.chance(add) {
		cfg := "c"
		if len(n.calls) > 0 {
			cfg = n.calls[0].cfg
		}
		m.calls = append(m.calls, g.call(apis, []string{cfg}))
	}
	for _, s := range n.subs {
		if g.chance(drop / 2) {
			continue // subtest removed from the program: its entries become stale
		}
		m.subs = append(m.subs, g.rmutate(s, change, drop, add, apis))
	}
	if g.chance(g.badProb) {
		// a call whose snapshot location cannot be created: exactly one failure, nothing else
		if g.chance(0.5) {
			m.calls = append(m.calls, &callSpec{api: g.pick("snapshot", "json", "yaml", "ssnap", "sjson"), cfg: "bad", val: strVal(`{"a":1}`), x: &Expect{Unwritable: true}})
		} else {
			// the parent directory can be created, the file cannot be opened (its path is a directory)
			m.calls = append(m.calls, &callSpec{api: g.pick("snapshot", "json", "yaml"), cfg: "isd", val: strVal(`{"a":1}`), x: &Expect{Unwritable: true}})
		}
	}
	return m
}

func cleanModeSpec(mode string) ProcSpec {
	return procSpec(mode)
}

// decoys: files and directories Clean must never touch, stale standalone files it must report
func decoyFiles(g *fgen) []InitFile {
	var out []InitFile
	if g.chance(0.7) {
		out = append(out, InitFile{P: "snaps/notes.txt", Content: []byte("keep me\n"), Role: "other"})
	}
	if g.chance(0.5) {
		out = append(out, InitFile{P: "snaps/x.snapshot", Content: []byte("has .snap in its name\n"), Role: "other"})
	}
	if g.chance(0.5) {
		out = append(out, InitFile{P: "snaps/sub", IsDir: true}, InitFile{P: "snaps/sub/inner.snap", Content: []byte("\n[TestGone - 1]\nv\n---\n"), Role: "other"})
	}
	if g.chance(0.5) {
		out = append(out, InitFile{P: "unvisited/__snapshots__/other_test.snap", Content: []byte("\n[TestElse - 1]\nv\n---\n"), Role: "other"})
	}
	if g.chance(0.6) {
		out = append(out, InitFile{P: "snaps/TestGone_1.snap", Content: []byte("stale standalone"), Role: "alone", Owner: "TestGone"})
	}
	if g.chance(0.3) {
		out = append(out, InitFile{P: "snaps/gone_test.snap", Content: []byte("\n[TestGone - 1]\nold\n---\n"), Role: "multi"})
	}
	if g.chance(0.3) {
		// leftovers of a rename: names that differ from the addressed ones only in letter case
		out = append(out, InitFile{P: "snaps/Main_test.snap", Content: []byte("\n[TestGone - 1]\nold\n---\n"), Role: "multi"},
			InitFile{P: "snaps/testa_1.snap", Content: []byte("stale standalone"), Role: "alone", Owner: "testa"})
	}
	return out
}

// staleEntries: pre-existing multi-entry file with entries of tests that no longer exist (or of
// higher ordinals), placed so that the file is unsorted once the run appends its own.
func staleFile(g *fgen, name string) InitFile {
	ids := []string{"TestZebra - 1", "TestGone - 1", "TestGone - 2", "TestA - 7", "TestMid/sub - 1"}
	g.r.Shuffle(len(ids), func(a, b int) { ids[a], ids[b] = ids[b], ids[a] })
	ids = ids[:1+g.r.Intn(3)]
	bodies := make([]string, len(ids))
	for i := range bodies {
		bodies[i] = g.initBody()
	}
	return InitFile{P: "snaps/" + name + ".snap", Content: g.initFile(ids, bodies), Role: "multi"}
}

// genCleanScenarios: record run (real runner), then a current run of a changed program in a given
// mode with Clean; optionally a further Clean-only run to observe idempotence.
func genCleanScenarios(g *fgen, n int, apis []string, modes []string, opt cleanGenOpts) []*Scenario {
	var out []*Scenario
	for i := 0; i < n; i++ {
		cfgs := []string{"c"}
		if g.chance(0.3) {
			cfgs = append(cfgs, "f")
		}
		if opt.oddDirs && g.chance(0.35) {
			cfgs = append(cfgs, g.pick("nc", "gl"))
		}
		p := g.rprogram(apis, cfgs, opt.maxTests, opt.maxCalls)
		sc := &Scenario{ID: g.id(), Configs: stdConfigs()}
		g.skipProb, g.parProb, g.badProb, g.moveProb = opt.skipProb, opt.parProb, opt.badProb, opt.moveProb
		sc.Init = append(sc.Init, InitFile{P: "blocker", Content: []byte("a regular file\n"), Role: "other"}, InitFile{P: "snaps/isdir.snap", IsDir: true})
		if g.chance(opt.staleProb) {
			sc.Init = append(sc.Init, staleFile(g, "main_test"))
		}
		if g.chance(opt.decoyProb) {
			sc.Init = append(sc.Init, decoyFiles(g)...)
		}
		sc.Procs = append(sc.Procs, &Proc{Spec: procSpec("default"), Real: true, Tests: p.tests(), State: "call"})
		q := &rprogram{}
		for _, r := range p.roots {
			q.roots = append(q.roots, g.rmutate(r, opt.change, opt.drop, opt.add, apis))
		}
		mode := modes[g.r.Intn(len(modes))]
		spec := cleanModeSpec(mode)
		if opt.counts && g.chance(0.3) {
			spec.Count = 2
		}
		if g.chance(0.2) {
			spec.Shuffle = "on" // the real runner's random test order
		}
		srt := g.chance(opt.sortProb)
		sc.Procs = append(sc.Procs, &Proc{Spec: spec, Real: true, Tests: q.tests(), Clean: &CleanDef{Sort: srt}, State: "call"})
		if g.chance(opt.againProb) {
			// the same program again: Clean must change nothing more
			sc.Procs = append(sc.Procs, &Proc{Spec: spec, Real: true, Tests: q.tests(), Clean: &CleanDef{Sort: srt}, State: "call"})
		}
		if opt.ciReplay {
			sc.Procs = append(sc.Procs, &Proc{Spec: procSpec("ci"), Real: true, Tests: q.tests(), State: "call"})
		}
		names := p.names()
		for _, x := range q.names() {
			found := false
			for _, y := range names {
				if x == y {
					found = true
				}
			}
			if !found {
				names = append(names, x)
			}
		}
		sc.Program = q.names()
		sc.Note = fmt.Sprintf("record;%s sort=%v count=%d;clean tests=%s", mode, srt, spec.Count, strings.Join(rootNames(q), ","))
		out = append(out, sc)
	}
	return out
}

type cleanGenOpts struct {
	maxTests, maxCalls         int
	change, drop, add          float64
	staleProb, decoyProb       float64
	sortProb, againProb        float64
	counts                     bool
	skipProb, parProb, badProb float64
	moveProb                   float64
	oddDirs                    bool // some calls go through Configs whose Dir is not clean / holds glob characters
	ciReplay                   bool // append a read-only CI run of the same program (no Clean)
}

func rootNames(p *rprogram) []string {
	var out []string
	for _, r := range p.roots {
		out = append(out, r.name)
	}
	return out
}
