package main

import (
	"bufio"
	"encoding/json"
	"fmt"
	"os"
	"path/filepath"
	"regexp"
	"strings"
)

// Known findings (DESIGN.md §7.3): committed file, never written at run time. An entry suppresses a
// violation only when (a) it is listed for the property being checked with status "known" and
// (b) its signature, evaluated on the failing case, holds. "fixed" entries suppress nothing.
type Finding struct {
	ID       string `json:"id"`
	Property string `json:"property"`
	Status   string `json:"status"` // known | fixed
	What     string `json:"what"`
	Sig      string `json:"signature"`
	Record   string `json:"record,omitempty"`
}

var findings []Finding

func loadFindings() error {
	findings = nil
	f, err := os.Open(filepath.Join(verifHome, "known_findings.jsonl"))
	if err != nil {
		if os.IsNotExist(err) {
			return nil
		}
		return err
	}
	defer f.Close()
	sc := bufio.NewScanner(f)
	sc.Buffer(nil, 1<<20)
	for sc.Scan() {
		line := strings.TrimSpace(sc.Text())
		if line == "" || strings.HasPrefix(line, "#") {
			continue
		}
		var fd Finding
		if err := json.Unmarshal([]byte(line), &fd); err != nil {
			return err
		}
		findings = append(findings, fd)
	}
	return sc.Err()
}

func listed(prop, id string) bool {
	for _, f := range findings {
		if f.Status == "known" && f.Property == prop && f.ID == id {
			return true
		}
	}
	return false
}

func listedAnywhere(id string) bool {
	for _, f := range findings {
		if f.Status == "known" && f.ID == id {
			return true
		}
	}
	return false
}

// matchKnown returns the id of a listed known finding whose signature holds on this failing case.
func matchKnown(prop string, m *Mismatch, ev map[string]any, sc *Scenario) string {
	for _, id := range candidateSignatures(m, ev, sc) {
		if listed(prop, id) {
			return id
		}
	}
	return ""
}

func hasTag(sc *Scenario, t string) bool {
	if sc == nil {
		return false
	}
	for _, x := range sc.Tags {
		if x == t {
			return true
		}
	}
	return false
}

// candidateSignatures evaluates every signature predicate on the failing case.
func candidateSignatures(m *Mismatch, ev map[string]any, sc *Scenario) []string {
	var out []string
	for _, s := range strings.Fields(m.Sig) { // K1, K2, K6: evaluated by the trace specification itself
		out = append(out, s)
	}
	if strings.HasPrefix(m.Check, "clean.") && sc != nil {
		run, count := lastProcRunCount(sc)
		if ev != nil && ev["ev"] == "clean" {
			// the process this Clean ran in (not necessarily the scenario's last one)
			if r, ok := ev["run"].(string); ok {
				run = r
				count = 1
				if n, ok := ev["count"].(float64); ok && n > 1 {
					count = int(n)
				} else if n, ok := ev["count"].(int); ok && n > 1 {
					count = n
				}
			}
		}
		id := strings.TrimSuffix(strings.TrimPrefix(m.Hdr, "["), "]")
		name := id
		if i := strings.Index(id, " - "); i >= 0 {
			name = id[:i]
		}
		if m.Hdr != "" && !cleanHeaderRe.MatchString("["+id+"]") {
			out = append(out, "K6")
		}
		if run != "" && m.Hdr != "" && m.Info == "protected" && m.St == "run" {
			// the code protects an entry iff the -run expression does NOT match the whole id
			if re, err := regexp.Compile(run); err == nil {
				// the code's rule on the pinned tree: an entry is NOT protected iff the expression
				// matches its whole id "<name> - <n>". Only where that rule leaves the entry
				// unprotected is the divergence a known one; an entry the rule covers must be kept.
				if !re.MatchString(name) && re.MatchString(id) {
					out = append(out, "K3") // matches only thanks to the " - <ordinal>" part
				}
				if re.MatchString(name) && re.MatchString(id) {
					out = append(out, "K7") // unsplit match of a name the runner did not select
				}
			}
		}
		if m.Hdr == "" && m.Path != "" && m.Info == "protected" {
			// file-level protection. The code's rule: a file is kept under -run iff it is
			// <testfile>.snap next to ../<testfile>.go and no function declared there matches the
			// pattern; it knows nothing about snaps.Skip*. What that rule does not cover is known
			// (K4, F5); a file the rule covers must be protected.
			if m.St == "run" && !codeRuleProtectsFile(sc, m.Path, run) {
				out = append(out, "K4")
			}
			if m.St == "skip" {
				out = append(out, "F5")
			}
		}
		if count > 1 && m.Hdr != "" && (m.Info == "addressed") && unevenExecs(sc, name) {
			out = append(out, "K5")
		}
	}
	// K8: `%` in Dir, Filename or the test name of a standalone call
	if ev["ev"] == "match" && (ev["api"] == "ssnap" || ev["api"] == "sjson") {
		pct := strings.Contains(fmt.Sprint(ev["t"]), "%")
		if cfg, ok := ev["cfg"].(map[string]any); ok {
			pct = pct || strings.Contains(fmt.Sprint(cfg["dir"]), "%") || strings.Contains(fmt.Sprint(cfg["filename"]), "%")
		}
		if pct {
			out = append(out, "K8")
		}
	}
	if sc != nil {
		for _, t := range sc.Tags {
			if strings.HasPrefix(t, "sig:") {
				out = append(out, strings.TrimPrefix(t, "sig:"))
			}
		}
	}
	return out
}

var cleanHeaderRe = regexp.MustCompile(`^\[Test.* - [0-9]*\]$`)

func lastProcRunCount(sc *Scenario) (string, int) {
	if len(sc.Procs) == 0 {
		return "", 1
	}
	p := sc.Procs[len(sc.Procs)-1]
	c := p.Spec.Count
	if c < 1 {
		c = 1
	}
	return p.Spec.Run, c
}

// unevenExecs: does some execution of the (top-level ancestor of the) test make a different number
// of calls than another one?
func unevenExecs(sc *Scenario, name string) bool {
	top := name
	if i := strings.Index(top, "/"); i >= 0 {
		top = top[:i]
	}
	p := sc.Procs[len(sc.Procs)-1]
	td := p.Tests[top]
	if td == nil || len(td.Execs) < 2 {
		return false
	}
	count := func(steps []*Step) int {
		n := 0
		var walk func(s []*Step)
		walk = func(s []*Step) {
			for _, st := range s {
				if st.Op == "match" {
					n++
				}
				walk(st.Steps)
			}
		}
		walk(steps)
		return n
	}
	first := count(td.Execs[0])
	for _, ex := range td.Execs[1:] {
		if count(ex) != first {
			return true
		}
	}
	return false
}

// driverFuncs: names of the functions declared in the driver's main_test.go (what isFileSkipped
// sees when it parses ../main_test.go)
var driverFuncs = []string{"TestMain", "itoa", "captureStdout", "run", "TestA", "TestAB", "TestA1", "TestB", "TestB2", "TestC",
	"TestZ", "Test1", "TestA_x", "TestBulk", "helper1", "helper2", "helper3"}

// (other_test.go declares otherFileHelper and an init; it is not the file isFileSkipped parses)

func codeRuleProtectsFile(sc *Scenario, absPath, run string) bool {
	if sc == nil || !sc.DefaultLoc || run == "" {
		return false
	}
	i := strings.LastIndex(absPath, "/")
	dir, base := absPath[:i], absPath[i+1:]
	funcs := driverFuncs
	switch base {
	case "main_test.snap":
	case "other_test.snap":
		funcs = []string{"otherFileHelper", "init"}
	case "pay.v2_test.snap":
		funcs = []string{"dotFileHelper", "init", "TestV2Only"}
	default:
		return false
	}
	if !strings.HasSuffix(dir, "/__snapshots__") {
		return false
	}
	re, err := regexp.Compile(run)
	if err != nil {
		return false
	}
	for _, f := range funcs {
		if re.MatchString(f) {
			return false
		}
	}
	return true
}
