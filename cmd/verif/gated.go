package main

import (
	"encoding/json"
	"fmt"
	"go/ast"
	"go/format"
	"go/parser"
	"go/token"
	"os"
	"os/exec"
	"path/filepath"
	"strconv"
	"strings"
)

// Gated driver (DESIGN.md §5.2): the non-test sources of package snaps in the CURRENT working tree
// are parsed and only their import declarations are rewritten ("os" -> vshim/vos, "sync" ->
// vshim/vsync); the rewritten copies and the shim packages are injected with `go test -overlay`.
// Nothing is written into the repository.

const shimBase = "github.com/gkampitakis/go-snaps/vshim/"

func rewriteImports(src string, dst string) (bool, error) {
	fset := token.NewFileSet()
	f, err := parser.ParseFile(fset, src, nil, parser.ParseComments)
	if err != nil {
		return false, err
	}
	changed := false
	for _, imp := range f.Imports {
		p, _ := strconv.Unquote(imp.Path.Value)
		switch p {
		case "os":
			imp.Path.Value = strconv.Quote(shimBase + "vos")
			if imp.Name == nil {
				imp.Name = ast.NewIdent("os")
			}
			changed = true
		case "sync":
			imp.Path.Value = strconv.Quote(shimBase + "vsync")
			if imp.Name == nil {
				imp.Name = ast.NewIdent("sync")
			}
			changed = true
		}
	}
	if !changed {
		return false, nil
	}
	out, err := os.Create(dst)
	if err != nil {
		return false, err
	}
	defer out.Close()
	return true, format.Node(out, fset, f)
}

// buildGatedDriver builds the driver with the instrumented package snaps. race adds -race.
func buildGatedDriver(sc *Scratch, name string, race bool) (*Driver, error) {
	ovDir := sc.Sub(name + "_ov")
	replace := map[string]string{}
	shimSrc := filepath.Join(verifHome, "harness", "overlay", "vshim")
	for _, pkg := range []string{"gate", "vos", "vsync"} {
		ents, err := os.ReadDir(filepath.Join(shimSrc, pkg))
		if err != nil {
			return nil, err
		}
		for _, e := range ents {
			dst := filepath.Join(ovDir, pkg+"_"+e.Name())
			if err := copyFile(filepath.Join(shimSrc, pkg, e.Name()), dst); err != nil {
				return nil, err
			}
			replace[filepath.Join(repoDir, "vshim", pkg, e.Name())] = dst
		}
	}
	snapsDir := filepath.Join(repoDir, "snaps")
	ents, err := os.ReadDir(snapsDir)
	if err != nil {
		return nil, err
	}
	rewritten := []string{}
	for _, e := range ents {
		if e.IsDir() || !strings.HasSuffix(e.Name(), ".go") || strings.HasSuffix(e.Name(), "_test.go") {
			continue
		}
		dst := filepath.Join(ovDir, "snaps_"+e.Name())
		ch, err := rewriteImports(filepath.Join(snapsDir, e.Name()), dst)
		if err != nil {
			return nil, inconclusive("cannot parse %s: %v", e.Name(), err)
		}
		if ch {
			replace[filepath.Join(snapsDir, e.Name())] = dst
			rewritten = append(rewritten, e.Name())
		}
	}
	ob, _ := json.Marshal(map[string]any{"Replace": replace})
	ovPath := filepath.Join(ovDir, "overlay.json")
	if err := os.WriteFile(ovPath, ob, 0o644); err != nil {
		return nil, err
	}
	flags := []string{"-tags", "verif", "-overlay", ovPath}
	if race {
		flags = append(flags, "-race")
	}
	d, err := buildDriver(sc, name, flags...)
	if err != nil {
		return nil, fmt.Errorf("gated build failed (a facility the shims lack?): %w", err)
	}
	_ = exec.Command
	d.Note = "rewritten: " + strings.Join(rewritten, ",")
	return d, nil
}
