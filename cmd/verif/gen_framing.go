package main

import (
	"fmt"
	"math/rand"
	"strings"
)

// Generators for the sequential "framing" family (C01-C04, C18, C19, C20 and parts of C05/C12):
// random programs over a line alphabet much larger than what TLC enumerates (DESIGN.md §4.4).

type fgen struct {
	r                          *rand.Rand
	n                          int
	tag                        string
	skipProb, parProb, badProb float64
	moveProb                   float64
}

func newFgen(seed int64, tag string) *fgen { return &fgen{r: rand.New(rand.NewSource(seed)), tag: tag} }

func (g *fgen) id() string {
	g.n++
	return fmt.Sprintf("%s%d", g.tag, g.n)
}

func (g *fgen) pick(xs ...string) string { return xs[g.r.Intn(len(xs))] }
func (g *fgen) chance(p float64) bool    { return g.r.Float64() < p }

var structLines = []string{
	"", " ", "a", "b", "c d", "---", "/-/-/-/", "--- ", " ---", "----", "--", "/-/-/-/ ", " /-/-/-/",
	"[TestGhost - 7]", "[TestA - 1] ", "[TestA - 1", "TestA - 1]", "[BenchmarkX - 1]", "[TestA - x]", "[]", "[Test - ]",
	"see [TestA - 1]", "pinned by [TestB - 1]", "[TestA - 1] trailing text", "--- a/x.txt", "-----", "---\t",
	"  indented", "trailing  ", "%d %s %v", "100%", "{\"a\": 1}", "- item", "key: value", "# comment", "...",
	"total: $100", "${name} $1 $$ $0", "PATH=$HOME/bin", "\\1 \\0 \\n", "a.*b|c", "(?i)x", "^anchor$",
}

func (g *fgen) opaqueLine() string {
	switch g.r.Intn(9) {
	case 0: // long line, beyond bufio's default token limit
		n := 70000 + g.r.Intn(5000)
		b := make([]byte, n)
		for i := range b {
			b[i] = byte('a' + g.r.Intn(26))
		}
		return string(b)
	case 1: // invalid UTF-8
		return "bin\xff\xfe" + string(rune('a'+g.r.Intn(26))) + "\xc3\x28"
	case 2:
		return "unicode é ü 漢字 ✓ " + string(rune('a'+g.r.Intn(26)))
	case 3:
		return "\x1b[31mred\x1b[0m"
	case 4:
		return "interior\rcr"
	case 5:
		return "nul\x00byte"
	case 6:
		return strings.Repeat(" ", 1+g.r.Intn(5))
	case 7:
		return "\xff"
	default:
		b := make([]byte, 1+g.r.Intn(12))
		for i := range b {
			b[i] = byte(0x21 + g.r.Intn(0x7e-0x21))
		}
		return string(b)
	}
}

func (g *fgen) line() string {
	if g.chance(0.18) {
		return g.opaqueLine()
	}
	return structLines[g.r.Intn(len(structLines))]
}

// text for MatchSnapshot / standalone: 1..5 lines, no CR at end of a line (documented limitation)
func (g *fgen) text() string {
	n := 1 + g.r.Intn(4)
	if g.chance(0.1) {
		n = 5 + g.r.Intn(20)
	}
	if g.chance(0.04) {
		// a body of several KB in many lines (crosses bufio's refill boundaries)
		ls := make([]string, 150+g.r.Intn(200))
		for i := range ls {
			ls[i] = fmt.Sprintf("row %04d %s", i, strings.Repeat(string(rune('a'+g.r.Intn(26))), 20+g.r.Intn(40)))
		}
		return strings.Join(ls, "\n")
	}
	ls := make([]string, n)
	for i := range ls {
		ls[i] = g.line()
	}
	return strings.Join(ls, "\n")
}

var yamlDocs = []string{
	"a: 1\n", "a: 1", "a: 1\nb:\n  - x\n  - y\n", "# comment\nkey: value # trailing\n", "---\na: 1\n---\nb: 2\n",
	"text: |\n  line\n  ---\n  more\n", "[TestY - 1]\n", "- 1\n- 2\n\n\n", "z: 1\ny: 2\nx: 3\n", "/-/-/-/\n", "s: \"quoted\"\n\n",
	"a:\n  b:\n    c: [1, 2, 3]\n", "a: 1\n---\n---\nb: 2\n", "---\n---\na: 1\n", "x\n---\n---\n---\n", "k: v\n...\n", "? complex\n: value\n", "a: 2\n", "b: 1\n", "list:\n- a\n- b\n",
	"\xef\xbb\xbfa: 1\nb: 2\n", "%YAML 1.2\n---\na: 75%\n",
}

var jsonDocs = []string{
	`{"a":1}`, `{"b":2,"a":1}`, `{"a":[1,2,3],"b":{"c":null,"d":true}}`, `[]`, `{}`, `[1,"x",null,false,1.5e3]`, `"str"`, `42`,
	`{"k":"---"}`, `{"nested":{"deep":{"deeper":[{"x":1},{"y":[]}]}}}`, `{"a":2}`, `{"é":"ü","\u0041":1}`, ` { "a" : 1 , "z" : [ ] } `,
	`{"long":"` + strings.Repeat("x", 300) + `"}`, `[[1,2],[3,4]]`, `{"n":-0,"m":1.0,"big":12345678901234567890}`, `null`, `true`,
}

var goNames = []string{"int", "int2", "float", "bool", "nil", "slice", "slice2", "strs", "map", "map2", "mapany", "inner", "outer", "outer2", "ptr", "err", "multi"}
var goMarshalable = []string{"int", "int2", "float", "bool", "slice", "slice2", "strs", "map", "map2", "mapany", "inner", "outer", "outer2", "ptr"}

var testNames = []string{"TestA", "TestA/x", "TestAB", "TestB", "TestA1", "Test1", "TestA/x/y", "TestA#01", "TestB/sub_case", "TestA/x#01", "TestZ_z"}

type callSpec struct {
	api string
	cfg string
	val *Val
	x   *Expect
}

var invalidJSON = []string{`{"a":`, `{'a':1}`, ``, `[1,]`, `nope`, `{"a":1}}`, `{"a" 1}`, " ", `{"b":1,"a":2}{"c":3}`, `[1,2]]`, `{"a":1},`, "{\"a\":1}\n{\"a\":2}", `{"a":01}`, `{"a":1,}`, `"unterminated`, "\xef\xbb\xbf{\"a\":1}", "\xef\xbb\xbf[1,2]"}
var invalidYAML = []string{"a: [1, 2", "a:\n\t- b", "\"unterminated", "{a: 1", "a: b: c", "defaults: *base\nname: svc\n", "a: &x 1\n---\nb: *y\n", "a: &x 1\nb: *y\n"}

func (g *fgen) call(apis []string, cfgs []string) *callSpec {
	api := apis[g.r.Intn(len(apis))]
	c := &callSpec{api: api, cfg: cfgs[g.r.Intn(len(cfgs))]}
	if (api == "ssnap" || api == "sjson") && (c.cfg == "f" || c.cfg == "e" || c.cfg == "fn") {
		// premise (DESIGN.md 6.0): a standalone Filename pattern is not shared between tests
		if c.cfg == "fn" {
			c.cfg = ""
		} else {
			c.cfg = "c"
		}
	}
	switch api {
	case "snapshot":
		switch {
		case g.chance(0.15):
			c.val = goVal(g.pick(goNames...))
		case g.chance(0.1):
			c.val = &Val{K: "multi", Vals: []*Val{strVal(g.text()), strVal(g.text())}}
		case g.chance(0.05):
			c.val = &Val{K: "multi", Vals: []*Val{strVal(g.text()), goVal(g.pick(goNames...))}}
		default:
			c.val = strVal(g.text())
		}
	case "ssnap":
		if g.chance(0.15) {
			c.val = goVal(g.pick(goNames...))
		} else {
			t := g.text()
			if g.chance(0.3) { // standalone files round-trip carriage returns too
				t = strings.ReplaceAll(t, "\n", "\r\n") + g.pick("", "\r", "\r\n")
			}
			c.val = strVal(t)
		}
	case "json", "sjson":
		switch {
		case g.chance(0.08):
			c.x = &Expect{Invalid: true}
			if g.chance(0.25) {
				c.val = goVal("chan")
			} else if g.chance(0.5) {
				c.val = bytesVal(g.pick(invalidJSON...))
			} else {
				c.val = strVal(g.pick(invalidJSON...))
			}
		case g.chance(0.2):
			c.val = goVal(g.pick(goMarshalable...))
		case g.chance(0.3):
			c.val = bytesVal(g.pick(jsonDocs...))
		default:
			c.val = strVal(g.pick(jsonDocs...))
		}
	case "yaml":
		switch {
		case g.chance(0.08):
			c.x = &Expect{Invalid: true}
			if g.chance(0.25) {
				c.val = goVal("chan")
			} else if g.chance(0.5) {
				c.val = bytesVal(g.pick(invalidYAML...))
			} else {
				c.val = strVal(g.pick(invalidYAML...))
			}
		case g.chance(0.2):
			c.val = goVal(g.pick(goMarshalable...))
		case g.chance(0.3):
			c.val = bytesVal(g.pick(yamlDocs...))
		default:
			c.val = strVal(g.pick(yamlDocs...))
		}
	}
	return c
}

// program: per test, the list of calls of one execution
type program struct {
	tests []string
	calls map[string][]*callSpec
}

func (g *fgen) program(apis, cfgs []string, maxTests, maxCalls int) *program {
	p := &program{calls: map[string][]*callSpec{}}
	nt := 1 + g.r.Intn(maxTests)
	perm := g.r.Perm(len(testNames))
	for i := 0; i < nt; i++ {
		t := testNames[perm[i]]
		p.tests = append(p.tests, t)
		nc := 1 + g.r.Intn(maxCalls)
		if g.chance(0.08) {
			nc = 10 + g.r.Intn(4) // crosses [T - 1] / [T - 10]
		}
		for j := 0; j < nc; j++ {
			p.calls[t] = append(p.calls[t], g.call(apis, cfgs))
		}
	}
	return p
}

// mutate returns a copy of the program in which some values changed
func (g *fgen) mutate(p *program, prob float64, apis []string) *program {
	q := &program{tests: p.tests, calls: map[string][]*callSpec{}}
	for _, t := range p.tests {
		for _, c := range p.calls[t] {
			if g.chance(prob) {
				nc := g.call([]string{c.api}, []string{c.cfg})
				q.calls[t] = append(q.calls[t], nc)
			} else {
				q.calls[t] = append(q.calls[t], c)
			}
		}
	}
	return q
}

// steps: sequential executions of every test (optionally repeated / interleaved)
func (g *fgen) steps(p *program, repeat int, interleave bool) []*Step {
	var out []*Step
	order := append([]string{}, p.tests...)
	g.r.Shuffle(len(order), func(i, j int) { order[i], order[j] = order[j], order[i] })
	for rep := 0; rep < repeat; rep++ {
		if interleave && len(order) > 1 {
			// all tests alive at once, calls round-robin in random order
			for _, t := range order {
				out = append(out, &Step{Op: "begin", Name: t})
			}
			idx := map[string]int{}
			remaining := 0
			for _, t := range order {
				remaining += len(p.calls[t])
			}
			for remaining > 0 {
				t := order[g.r.Intn(len(order))]
				if idx[t] >= len(p.calls[t]) {
					continue
				}
				c := p.calls[t][idx[t]]
				idx[t]++
				remaining--
				out = append(out, &Step{Op: "match", Name: t, API: c.api, Cfg: c.cfg, Val: c.val, X: c.x})
			}
			for _, t := range order {
				out = append(out, &Step{Op: "end", Name: t})
			}
			continue
		}
		for _, t := range order {
			out = append(out, &Step{Op: "begin", Name: t})
			for _, c := range p.calls[t] {
				out = append(out, &Step{Op: "match", Name: t, API: c.api, Cfg: c.cfg, Val: c.val, X: c.x})
			}
			if g.chance(0.05) {
				out = append(out, &Step{Op: "noargs", Name: t, Cfg: "c"})
			}
			out = append(out, &Step{Op: "end", Name: t})
		}
	}
	return out
}

func stdConfigs() map[string]*Cfg {
	return map[string]*Cfg{
		"c":   {Dir: sp("@/snaps")},
		"f":   {Dir: sp("@/snaps"), Filename: sp("custom")},
		"ut":  {Dir: sp("@/snaps"), Update: bp(true)},
		"uf":  {Dir: sp("@/snaps"), Update: bp(false)},
		"e":   {Dir: sp("@/snaps"), Filename: sp("ext"), Ext: sp(".txt")},
		"d2":  {Dir: sp("@/other/deep")},
		"fn":  {Filename: sp("custom")},                    // default directory, custom file name
		"nc":  {Dir: sp("@/./snaps//")},                    // a Dir that is not in cleaned form
		"gl":  {Dir: sp("@/proj[v2]/sn*ps")},               // glob metacharacters in the path
		"bad": {Dir: sp("@/blocker/snaps")},                // "blocker" is a regular file: nothing can be created below it
		"isd": {Dir: sp("@/snaps"), Filename: sp("isdir")}, // snaps/isdir.snap is a DIRECTORY: the directory exists, opening the file fails
	}
}

func procSpec(mode string) ProcSpec {
	switch mode {
	case "ci":
		return ProcSpec{CI: "CI"}
	case "gha":
		return ProcSpec{CI: "GITHUB_ACTIONS"}
	case "update":
		return ProcSpec{UpdVar: sp("true")}
	case "clean":
		return ProcSpec{UpdVar: sp("clean")}
	case "other":
		return ProcSpec{UpdVar: sp("TRUE")}
	case "color":
		return ProcSpec{Color: true}
	case "ci+update":
		return ProcSpec{CI: "CI", UpdVar: sp("true")}
	case "ci+clean":
		return ProcSpec{CI: "GITHUB_ACTIONS", UpdVar: sp("clean")}
	}
	return ProcSpec{}
}

// initial multi-entry file written by the harness: well-formed frames in append format or in
// Clean's rewrite format, optional blank lines between frames, optional missing final newline.
func (g *fgen) initFile(ids []string, bodies []string) []byte {
	var b strings.Builder
	for i, id := range ids {
		b.WriteString("\n")
		if g.chance(0.2) {
			b.WriteString("\n")
		}
		b.WriteString("[" + id + "]\n")
		b.WriteString(bodies[i])
		b.WriteString("\n---\n")
	}
	s := b.String()
	if g.chance(0.25) {
		s = strings.TrimSuffix(s, "\n")
	}
	if g.chance(0.2) {
		s = strings.TrimPrefix(s, "\n")
	}
	return []byte(s)
}

// stored body for an initial file: lines without raw END, no trailing CR, not a header of a test
// the generator uses (that would be the K2 signature)
func (g *fgen) initBody() string {
	n := 1 + g.r.Intn(3)
	ls := make([]string, n)
	for i := range ls {
		for {
			l := g.line()
			if l == "---" || l == "/-/-/-/" || strings.HasSuffix(l, "\r") {
				continue
			}
			ls[i] = l
			break
		}
	}
	return strings.Join(ls, "\n")
}

// genRecordReplay: record in one process, then one or two more processes in random modes with the
// same or changed values. The contract decides what every call must do.
func genRecordReplay(g *fgen, n int, apis []string, modes2 []string, changeProb float64) []*Scenario {
	var out []*Scenario
	for i := 0; i < n; i++ {
		cfgs := []string{"c"}
		if g.chance(0.3) {
			cfgs = []string{"c", "f"}
		}
		if g.chance(0.15) {
			cfgs = append(cfgs, g.pick("ut", "uf", "e", "d2"))
		}
		p := g.program(apis, cfgs, 3, 4)
		sc := &Scenario{ID: g.id(), Configs: stdConfigs(), Program: p.tests}
		// optional pre-existing file holding entries of other tests and stale ordinals
		if g.chance(0.4) {
			ids := []string{"TestOld - 1", "TestOld - 2", "TestA - 9", "TestQ/sub - 1"}
			g.r.Shuffle(len(ids), func(a, b int) { ids[a], ids[b] = ids[b], ids[a] })
			ids = ids[:1+g.r.Intn(len(ids))]
			bodies := make([]string, len(ids))
			for k := range bodies {
				bodies[k] = g.initBody()
			}
			sc.Init = append(sc.Init, InitFile{P: "snaps/main_test.snap", Content: g.initFile(ids, bodies), Role: "multi"})
		}
		rep := 1
		if g.chance(0.25) {
			rep = 2 + g.r.Intn(2)
		}
		sc.Procs = append(sc.Procs, &Proc{Spec: procSpec("default"), Steps: g.steps(p, rep, g.chance(0.2))})
		m2 := modes2[g.r.Intn(len(modes2))]
		q := p
		if g.chance(0.7) {
			q = g.mutate(p, changeProb, apis)
		}
		sc.Procs = append(sc.Procs, &Proc{Spec: procSpec(m2), Steps: g.steps(q, 1, g.chance(0.2))})
		// an immediately following read-only run
		sc.Procs = append(sc.Procs, &Proc{Spec: procSpec("ci"), Steps: g.steps(q, 1, false)})
		sc.Note = fmt.Sprintf("record;%s;ci-replay apis=%v tests=%v", m2, apis, p.tests)
		out = append(out, sc)
	}
	return out
}
