package main

import (
	"bytes"
	"encoding/base64"
	"encoding/json"
	"fmt"
	"path/filepath"
	"regexp"
	"sort"
	"strings"
)

// Abstraction (DESIGN.md §4.3): raw driver events -> records the trace specification reads.
// File bytes are split into lines by the harness; printable ASCII lines travel literally,
// everything else as an injective token "?<hash>:<len>".

type absCtx struct {
	root   string // scratch run root, mapped to /R
	drvDir string // driver source dir, mapped to /R/prog via root
	tokens map[string]string
	goJSON map[string]string // json.Marshal text of the driver's named Go values
	crlf   map[string]bool   // multi-entry init files of the current scenario whose lines end in CRLF
}

func newAbsCtx(root string, goJSON map[string]string) *absCtx {
	return &absCtx{root: root, tokens: map[string]string{}, goJSON: goJSON}
}

func (a *absCtx) path(p string) string {
	if strings.HasPrefix(p, a.root) {
		return "/R" + strings.TrimPrefix(p, a.root)
	}
	return p
}

func literalOK(s string) bool {
	if len(s) > 160 {
		return false
	}
	for i := 0; i < len(s); i++ {
		c := s[i]
		if c < 0x20 || c > 0x7e {
			return false
		}
	}
	return !strings.HasPrefix(s, "?")
}

func (a *absCtx) line(s string) string {
	// absolute scratch paths inside lines (diff footers etc.) are irrelevant here; lines are data
	if literalOK(s) {
		return s
	}
	if t, ok := a.tokens[s]; ok {
		return t
	}
	t := fmt.Sprintf("?%s:%d", shortHash([]byte(s)), len(s))
	a.tokens[s] = t
	return t
}

// splitFile: bytes -> (lines, nl). Bijective: bytes = join(lines,"\n") + (nl ? "\n" : "").
func splitFile(b []byte) ([]string, bool) {
	if len(b) == 0 {
		return []string{}, false
	}
	nl := b[len(b)-1] == '\n'
	if nl {
		b = b[:len(b)-1]
	}
	return strings.Split(string(b), "\n"), nl
}

func (a *absCtx) lines(ls []string) []string {
	out := make([]string, len(ls))
	for i, l := range ls {
		out[i] = a.line(l)
	}
	return out
}

// valueLines: strings.Split(text, "\n") abstracted
func (a *absCtx) valueLines(text string) []string { return a.lines(strings.Split(text, "\n")) }

type absFile map[string]any

// fsAll merges the projections of all watched directories of an event
func (a *absCtx) fsAll(ds []*RawDir, roles map[string]InitFile) []any {
	out := []any{}
	for i, d := range ds {
		r := roles
		if i > 0 {
			r = nil
		}
		out = append(out, a.fsOf(d, r)...)
	}
	return out
}

func (a *absCtx) fsOf(d *RawDir, roles map[string]InitFile) []any {
	out := []any{}
	if d == nil || d.Missing {
		return out
	}
	for _, f := range d.Files {
		p := a.path(d.Dir + "/" + f.P)
		dir, base := p, ""
		if i := strings.LastIndex(p, "/"); i >= 0 {
			dir, base = p[:i], p[i+1:]
		}
		rec := map[string]any{"p": p, "dir": dir, "base": base, "touched": f.Touched, "role": "", "owner": ""}
		if f.IsDir {
			rec["kind"] = "dir"
			rec["lines"] = []string{}
			rec["nl"] = false
		} else {
			b, _ := base64.StdEncoding.DecodeString(f.B64)
			ls, nl := splitFile(b)
			if a.crlf[f.P] {
				// a multi-entry file checked out with CRLF line endings: the format's lines are
				// bufio.ScanLines lines (one trailing CR is not part of the line)
				for i := range ls {
					ls[i] = strings.TrimSuffix(ls[i], "\r")
				}
			}
			rec["kind"] = "file"
			rec["lines"] = a.lines(ls)
			rec["nl"] = nl
		}
		if roles != nil {
			if r, ok := roles[f.P]; ok {
				rec["role"] = r.Role
				if r.Role == "symlink" {
					rec["role"] = r.Owner // what the link stands for ("multi" / "alone" / "other")
				} else {
					rec["owner"] = r.Owner
				}
			}
		}
		out = append(out, rec)
	}
	return out
}

var sgr = regexp.MustCompile("\x1b\\[[0-9;]*m")

func stripSGR(s string) string { return sgr.ReplaceAllString(s, "") }

func decodeAll(b64s []string) []string {
	out := make([]string, len(b64s))
	for i, s := range b64s {
		b, _ := base64.StdEncoding.DecodeString(s)
		out[i] = string(b)
	}
	return out
}

func logKind(logs []string) string {
	if len(logs) == 0 {
		return "none"
	}
	s := stripSGR(logs[0])
	switch {
	case strings.Contains(s, "Snapshot added"):
		return "added"
	case strings.Contains(s, "Snapshot updated"):
		return "updated"
	case strings.Contains(s, "Snapshot skipped"):
		return "skipped"
	case strings.Contains(s, "[warning]"):
		return "warning"
	}
	return "other"
}

var matcherRe = regexp.MustCompile(`match\.(\w+)\("([^"]*)"\)`)

func errMatchers(errs []string) []any {
	out := []any{}
	for _, e := range errs {
		for _, m := range matcherRe.FindAllStringSubmatch(stripSGR(e), -1) {
			out = append(out, []string{m[1], m[2]})
		}
	}
	return out
}

func errKind(errs []string) string {
	if len(errs) == 0 {
		return "none"
	}
	s := stripSGR(errs[0])
	switch {
	case strings.Contains(s, "snapshot not found"):
		return "notfound"
	case strings.Contains(s, "invalid json"):
		return "invalidjson"
	case strings.Contains(s, "invalid yaml"):
		return "invalidyaml"
	case strings.Contains(s, "match."):
		return "matcher"
	case strings.Contains(s, "Snapshot") && strings.Contains(s, "Received"):
		return "diff"
	}
	return "other"
}

// ---------------------------------------------------------------- values

// textOf returns the text the harness knows independently for a call's input, if any.
func knownText(api string, v *Val, ms []*Matcher) (string, bool) {
	if len(ms) > 0 || v == nil {
		return "", false
	}
	switch api {
	case "snapshot", "ssnap":
		var parts []string
		vals := []*Val{v}
		if v.K == "multi" {
			vals = v.Vals
		}
		for _, x := range vals {
			if x.K != "str" {
				return "", false
			}
			b, _ := base64.StdEncoding.DecodeString(x.B64)
			if bytes.ContainsAny(b, "\t\v\f") { // kr/pretty's tabwriter rewrites these
				return "", false
			}
			parts = append(parts, string(b))
		}
		return strings.Join(parts, "\n"), true
	case "yaml":
		if v.K == "str" || v.K == "bytes" {
			b, _ := base64.StdEncoding.DecodeString(v.B64)
			return string(b), true
		}
	}
	return "", false
}

// identity of a value whose formatted text only go-snaps produces. inj = different identities of
// the same family are guaranteed to format differently (and equal ones identically).
func (a *absCtx) identity(api string, c *Cfg, v *Val, ms []*Matcher) (string, bool) {
	all := fmt.Sprintf("%s|%s|%s|%s", apiFamily(api), cfgSig(c), valString(v), matchersString(ms))
	switch apiFamily(api) {
	case "json":
		if len(ms) == 0 && v != nil {
			text, ok := "", false
			switch v.K {
			case "str", "bytes", "rawmsg":
				b, _ := base64.StdEncoding.DecodeString(v.B64)
				text, ok = string(b), true
			case "go":
				text, ok = a.goJSON[v.Name]
			case "gojson":
				text, ok = goJSONText(v)
			}
			sortKeys := true
			if c != nil && c.JSON != nil {
				sortKeys = c.JSON.SortKeys
			}
			if ok {
				if cn, ok := canonJSON(text, sortKeys); ok {
					return "j:" + shortHash([]byte(cn+"|"+cfgSig(c))), true
				}
			}
		}
		return "jx:" + shortHash([]byte(all)), false
	case "pretty":
		if v != nil && v.K == "go" {
			return "p:go:" + v.Name, true
		}
		return "px:" + shortHash([]byte(all)), false
	case "yaml":
		if v != nil && v.K == "go" && len(ms) == 0 {
			return "y:go:" + v.Name, true
		}
		return "yx:" + shortHash([]byte(all)), false
	}
	return "x:" + shortHash([]byte(all)), false
}

func apiFamily(api string) string {
	switch api {
	case "json", "sjson":
		return "json"
	case "snapshot", "ssnap":
		return "pretty"
	}
	return api
}

func valString(v *Val) string {
	if v == nil {
		return "nil"
	}
	switch v.K {
	case "multi":
		var p []string
		for _, x := range v.Vals {
			p = append(p, valString(x))
		}
		return "multi(" + strings.Join(p, ",") + ")"
	case "go":
		return "go:" + v.Name
	}
	return v.K + ":" + v.B64
}

func matchersString(ms []*Matcher) string {
	var p []string
	for _, m := range ms {
		p = append(p, fmt.Sprintf("%s%v%s%v%s%s%s", m.M, m.Paths, m.Placeholder, m.EOMP, m.T, m.Ret, m.Err))
	}
	return strings.Join(p, ";")
}

// ---------------------------------------------------------------- summary parsing

type Summary struct {
	Present                                 bool
	Passed, Failed, Added, Updated, Skipped int
	NFiles, NTests                          int
	Files, Tests                            []string
	Removed                                 bool
	Unknown                                 []string // lines no rule of this reader covers
}

var (
	evRe   = regexp.MustCompile(`^. (\d+) snapshots? (passed|failed|added|updated|skipped)$`)
	listRe = regexp.MustCompile(`^› (\d+) snapshot (files?|tests?) (obsolete|removed)$`)
	itemRe = regexp.MustCompile(`^  ↳ +• (.*)$`)
)

func parseSummary(out string) *Summary {
	s := &Summary{Files: []string{}, Tests: []string{}}
	cur := ""
	for _, line := range strings.Split(stripSGR(out), "\n") {
		if strings.TrimSpace(line) == "Snapshot Summary" {
			s.Present = true
			continue
		}
		if m := evRe.FindStringSubmatch(line); m != nil {
			n := atoi(m[1])
			switch m[2] {
			case "passed":
				s.Passed += n
			case "failed":
				s.Failed += n
			case "added":
				s.Added += n
			case "updated":
				s.Updated += n
			case "skipped":
				s.Skipped += n
			}
			continue
		}
		if m := listRe.FindStringSubmatch(line); m != nil {
			n := atoi(m[1])
			if strings.HasPrefix(m[2], "file") {
				s.NFiles += n
				cur = "files"
			} else {
				s.NTests += n
				cur = "tests"
			}
			if m[3] == "removed" {
				s.Removed = true
			}
			continue
		}
		if m := itemRe.FindStringSubmatch(line); m != nil {
			if cur == "files" {
				s.Files = append(s.Files, m[1])
			} else if cur == "tests" {
				s.Tests = append(s.Tests, m[1])
			}
			continue
		}
		if strings.TrimSpace(line) != "" && !strings.HasPrefix(line, "To remove ") && !strings.Contains(line, "%!") {
			s.Unknown = append(s.Unknown, line)
		}
	}
	return s
}

func atoi(s string) int {
	n := 0
	for _, c := range s {
		n = n*10 + int(c-'0')
	}
	return n
}

// ---------------------------------------------------------------- scenario -> abstract trace

func cfgRecord(a *absCtx, c *Cfg) (map[string]any, string) {
	rec := map[string]any{"dir": "", "filename": "", "ext": ""}
	upd := "unset"
	if c != nil {
		if c.Dir != nil {
			d := *c.Dir
			if filepath.IsAbs(d) || strings.HasPrefix(d, "./") {
				d = filepath.Clean(d) // the location is the cleaned path (filepath.Join)
			}
			rec["dir"] = a.path(d)
		}
		if c.Filename != nil {
			rec["filename"] = *c.Filename
		}
		if c.Ext != nil {
			rec["ext"] = *c.Ext
		}
		if c.Update != nil {
			if *c.Update {
				upd = "true"
			} else {
				upd = "false"
			}
		}
	}
	return rec, upd
}

func cfgSig(c *Cfg) string {
	if c == nil || c.JSON == nil {
		return "defaultjson"
	}
	return fmt.Sprintf("json(%d,%q,%v)", c.JSON.Width, c.JSON.Indent, c.JSON.SortKeys)
}

// abstractRun converts one executed scenario into trace records.
func abstractRun(a *absCtx, r *ScenarioRun, drvDir string) ([]map[string]any, error) {
	s := r.Sc
	steps := s.stepByID()
	roles := map[string]InitFile{}
	a.crlf = map[string]bool{}
	for _, f := range s.Init {
		if f.CRLF {
			a.crlf[f.P] = true
		}
		roles[f.P] = f
		if s.DefaultLoc { // projected directory is <driver>/__snapshots__
			roles[strings.TrimPrefix(f.P, "__snapshots__/")] = f
		}
	}
	if r.Drv != "" {
		drvDir = r.Drv
	}
	cfgs := resolveCfgs(s.Configs, r.Dir)
	// a Dir option that goes through a symbolic link of the scenario names the directory behind it:
	// the contract speaks about files, and the projection shows them where they are
	for _, f := range s.Init {
		if f.Role == "symlink" && f.Owner == "dir" {
			link := filepath.Join(r.Dir, f.P)
			target := filepath.Join(filepath.Dir(link), string(f.Content))
			for _, c := range cfgs {
				if c.Dir != nil && (*c.Dir == link || strings.HasPrefix(*c.Dir, link+"/")) {
					d := target + strings.TrimPrefix(*c.Dir, link)
					c.Dir = &d
				}
			}
		}
	}
	var out []map[string]any
	prog := append([]string{}, s.Program...)
	sort.Strings(prog)
	first := true
	for pi, p := range s.Procs {
		tdir := a.path(drvDir)
		if strings.HasPrefix(p.Spec.Variant, "deep") {
			tdir += "/sub/deep"
		}
		raw := r.Raw[pi]
		if len(raw) == 0 {
			return nil, inconclusive("scenario %s: process %d left no events", s.ID, pi)
		}
		for _, e := range raw {
			if e == nil {
				continue
			}
			var dir0 *RawDir
			if len(e.Dirs) > 0 {
				dir0 = e.Dirs[0]
			}
			hasfs := dir0 != nil
			switch e.Ev {
			case "start":
				if first {
					// reset from the state the driver saw before anything ran
					first = false
					var st *RawDir
					if p.Real && dir0 != nil {
						st = dir0
					}
					if !p.Real {
						for _, e2 := range raw {
							if e2 != nil && e2.Ev == "hstart" && len(e2.Dirs) > 0 {
								st = e2.Dirs[0]
								break
							}
						}
					}
					fs0 := a.fsOf(st, roles)
					if p.Real && len(e.Dirs) > 1 {
						fs0 = a.fsAll(e.Dirs, roles)
					}
					out = append(out, map[string]any{"ev": "reset", "h": s.ID, "fs": fs0, "program": prog})
				}
				cnt := p.Spec.Count
				if cnt < 1 {
					cnt = 1
				}
				out = append(out, map[string]any{"ev": "proc", "h": s.ID, "ci": p.Spec.ciOn(), "updvar": p.Spec.updvarClass(),
					"count": cnt, "run": p.Spec.Run})
			case "hstart", "exit":
			case "begin":
				if p.Real && p.Spec.Run == "" && idle(p, e.T) {
					continue // a test without steps and no -run filter: irrelevant to the contract
				}
				out = append(out, map[string]any{"ev": "begin", "h": s.ID, "t": e.T})
			case "end":
				if p.Real && p.Spec.Run == "" && idle(p, e.T) {
					continue
				}
				out = append(out, map[string]any{"ev": "end", "h": s.ID, "t": e.T, "hasfs": hasfs, "resync": e.Note == "resync", "fs": a.fsAll(e.Dirs, nil)})
			case "skip":
				logs := decodeAll(e.Logs)
				out = append(out, map[string]any{"ev": "skip", "h": s.ID, "t": e.T, "nerr": len(e.Errs), "nlog": len(logs), "logk": logKind(logs)})
			case "noargs":
				logs := decodeAll(e.Logs)
				out = append(out, map[string]any{"ev": "noargs", "h": s.ID, "t": e.T, "nerr": len(e.Errs), "nlog": len(logs), "logk": logKind(logs),
					"hasfs": hasfs, "fs": a.fsAll(e.Dirs, nil)})
			case "match":
				st := steps[e.ID]
				if st == nil {
					return nil, inconclusive("scenario %s: event for unknown step %q", s.ID, e.ID)
				}

				var c *Cfg
				if st.Cfg != "" {
					c = cfgs[st.Cfg]
				}
				crec, upd := cfgRecord(a, c)
				logs := decodeAll(e.Logs)
				errs := decodeAll(e.Errs)
				rec := map[string]any{"ev": "match", "h": s.ID, "id": e.ID, "t": e.T, "api": st.API, "cfg": crec, "upd": upd,
					"tdir": tdir, "tbase": tbaseOf(st.Via),
					"nerr": len(errs), "nlog": len(logs), "logk": logKind(logs), "errk": errKind(errs), "errm": errMatchers(errs),
					"hasfs": hasfs, "fs": a.fsAll(e.Dirs, nil)}
				x := st.X
				if x == nil {
					x = &Expect{}
				}
				rec["invalid"] = x.Invalid || x.Unwritable
				rec["unwritable"] = x.Unwritable
				mf := []any{}
				for _, m := range x.MFail {
					mf = append(mf, []string{m[0], m[1]})
				}
				rec["mfail"] = mf
				rec["lossless"] = losslessJSON(a, st, e, logKind(logs), "")
				rec["docok"] = "na"
				if x.Doc != "" {
					rec["docok"] = losslessJSON(a, st, e, logKind(logs), x.Doc)
				}
				rec["nm"] = len(st.Matchers)
				rec["panic"] = e.Panic != "" // the call did not return: a real behaviour, judged by the contract
				rec["bufsame"] = true
				if st.Val != nil && (st.Val.K == "bytes" || st.Val.K == "rawmsg") && e.Buf != "" {
					rec["bufsame"] = e.Buf == st.Val.B64
				}
				rec["inj"] = false
				if x.Text != nil {
					rec["known"] = true
					rec["vl"] = a.valueLines(*x.Text)
					rec["vid"] = ""
				} else if t, ok := knownText(st.API, st.Val, st.Matchers); ok && x.VID == "" {
					rec["known"] = true
					rec["vl"] = a.valueLines(t)
					rec["vid"] = ""
				} else {
					rec["known"] = false
					rec["vl"] = []string{}
					if x.VID != "" {
						rec["vid"] = x.VID
						rec["inj"] = x.Inj
					} else {
						rec["vid"], rec["inj"] = a.identity(st.API, c, st.Val, st.Matchers)
					}
				}
				out = append(out, rec)
			case "clean":
				b, _ := base64.StdEncoding.DecodeString(e.Out)
				sum := parseSummary(string(b))
				missing := 0
				if d := sum.NFiles - len(sum.Files); d > 0 {
					missing += d
				}
				if d := sum.NTests - len(sum.Tests); d > 0 {
					missing += d
				}
				// lines without a rule make the summary unreadable for us -- unless more items are missing
				// from the lists than there are such lines (they cannot all be reworded items): then items
				// Clean counted are not listed, whatever the extra lines say
				if len(sum.Unknown) > 0 && missing <= len(sum.Unknown) {
					// Clean printed something this reader has no rule for: the summary cannot be judged
					return nil, inconclusive("output of Clean not understood (scenario %s): %q", s.ID, sum.Unknown[0])
				}
				files := make([]string, len(sum.Files))
				for i, f := range sum.Files {
					files[i] = a.path(f)
				}
				out = append(out, map[string]any{"ev": "clean", "h": s.ID, "run": p.Spec.Run, "count": p.Spec.Count, "sort": p.Clean != nil && p.Clean.Sort && !p.Clean.NoOpt,
					"sum": map[string]any{"present": sum.Present, "passed": sum.Passed, "failed": sum.Failed, "added": sum.Added,
						"updated": sum.Updated, "skipped": sum.Skipped, "nfiles": sum.NFiles, "ntests": sum.NTests,
						"files": files, "tests": sum.Tests, "removed": sum.Removed},
					"hasfs": hasfs, "fs": a.fsAll(e.Dirs, nil)})
			default:
				return nil, inconclusive("unknown raw event %q", e.Ev)
			}
		}
	}
	return out, nil
}

// idle: a top-level test of the driver to which the script gives no steps
func idle(p *Proc, name string) bool {
	if strings.Contains(name, "/") {
		return false
	}
	td := p.Tests[name]
	if td == nil {
		return true
	}
	for _, ex := range td.Execs {
		if len(ex) > 0 {
			return false
		}
	}
	return true
}

// goJSONText: the standard JSON encoding of the Go value the driver builds for a "gojson" input
func goJSONText(v *Val) (string, bool) {
	b, _ := base64.StdEncoding.DecodeString(v.B64)
	dec := json.NewDecoder(bytes.NewReader(b))
	dec.UseNumber()
	var x any
	if err := dec.Decode(&x); err != nil {
		return "", false
	}
	out, err := json.Marshal(x)
	if err != nil {
		return "", false
	}
	return string(out), true
}

// losslessJSON: does the text a MatchJSON / MatchStandaloneJSON call just stored parse to the same
// JSON value as its input (C14)? "yes" / "no" / "na". The stored text is read by the harness's
// own JSON reader; member order is ignored, scalars are compared raw.
// With expect != "" the stored text is compared with that document instead (matchers allowed).
func losslessJSON(a *absCtx, st *Step, e *RawEvent, logk string, expect string) string {
	if (st.API != "json" && st.API != "sjson") || (len(st.Matchers) > 0 && expect == "") || st.Val == nil || (logk != "added" && logk != "updated") {
		return "na"
	}
	in, ok := "", false
	if expect != "" {
		in, ok = expect, true
	} else {
		switch st.Val.K {
		case "str", "bytes", "rawmsg":
			b, _ := base64.StdEncoding.DecodeString(st.Val.B64)
			in, ok = string(b), true
		case "gojson":
			in, ok = goJSONText(st.Val)
		case "go":
			in, ok = a.goJSON[st.Val.Name]
		}
	}
	if !ok {
		return "na"
	}
	want, ok := canonJSON(in, true)
	if !ok {
		return "na"
	}
	for _, d := range e.Dirs {
		for _, f := range d.Files {
			if !f.Touched || f.IsDir {
				continue
			}
			b, _ := base64.StdEncoding.DecodeString(f.B64)
			stored := string(b)
			if st.API == "json" {
				// the frame this call wrote is one of this test's frames in the touched file (the
				// harness does not compute ordinals): some frame of the test must hold the value
				lines := strings.Split(stored, "\n")
				pre := "[" + e.T + " - "
				found := false
				for i, l := range lines {
					if !(strings.HasPrefix(l, pre) && strings.HasSuffix(l, "]")) {
						continue
					}
					end := len(lines)
					for j := i + 1; j < len(lines); j++ {
						if lines[j] == "---" {
							end = j
							break
						}
					}
					if got, ok := canonJSON(strings.Join(lines[i+1:end], "\n"), true); ok && got == want {
						found = true
						break
					}
				}
				if found {
					return "yes"
				}
				return "no"
			}
			got, ok := canonJSON(stored, true)
			if !ok || got != want {
				return "no"
			}
			return "yes"
		}
	}
	return "na"
}

// tbaseOf: the test file (without .go) a call is filed under, by call shape
func tbaseOf(via string) string {
	switch via {
	case "otherfile":
		return "other_test"
	case "dotfile":
		return "pay.v2_test"
	}
	return "main_test"
}
