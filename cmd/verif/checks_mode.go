package main

import (
	"context"
	"encoding/json"
	"fmt"
	"hash/fnv"
	"os/exec"
	"strconv"
	"strings"
	"time"
)

// C05: write permissions follow the mode table (DESIGN.md §6 C05).

func init() {
	register("C05", "model_checking", "TLC enumerates every cell of the mode table (MC_Mode) and checks the statement of C05 on it; each cell is executed as real processes with the real environment variables and the trace is validated by TLC against the contract (Mode.tla)", checkC05)
}

type modeCell struct {
	Cell struct {
		CI       string `json:"ci"`
		Upd      string `json:"upd"`
		UpdVar   string `json:"updvar"`
		API      string `json:"api"`
		St       string `json:"st"`
		Sort     bool   `json:"sort"`
		Obsolete bool   `json:"obsolete"`
	} `json:"cell"`
	Expect struct {
		Outcome string `json:"outcome"`
		Deletes bool   `json:"deletes"`
		Sorts   bool   `json:"sorts"`
	} `json:"expect"`
}

func cellValues(api string) (*Val, *Val) {
	switch api {
	case "json", "sjson":
		return strVal(`{"k":"v1","n":[1,2]}`), strVal(`{"k":"v2","n":[1,2]}`)
	case "yaml":
		return strVal("k: v1\nn:\n  - 1\n"), strVal("k: v2\nn:\n  - 1\n")
	}
	return strVal("v1\nsecond line"), strVal("v2\nsecond line")
}

func cellScenario(id string, mc *modeCell) *Scenario {
	c := mc.Cell
	sc := &Scenario{ID: id, Configs: stdConfigs(), Program: append([]string{}, topTests...)}
	v1, v2 := cellValues(c.API)
	if c.Obsolete {
		sc.Init = append(sc.Init,
			InitFile{P: "snaps/main_test.snap", Content: []byte("\n[TestZebra - 1]\nstale\n---\n\n[TestB - 3]\nstale too\n---\n"), Role: "multi"},
			InitFile{P: "snaps/TestGone_1.snap", Content: []byte("stale standalone"), Role: "alone", Owner: "TestGone"},
			InitFile{P: "snaps/gone_test.snap.txt", Content: []byte("\n[TestGone - 1]\nold\n---\n"), Role: "multi"},
			InitFile{P: "snaps/notes.txt", Content: []byte("keep\n"), Role: "other"},
			InitFile{P: "snaps/sub", IsDir: true},
			InitFile{P: "snaps/sub/inner.snap", Content: []byte("x"), Role: "other"},
		)
	}
	// TestB keeps the multi-entry file addressed even when the cell's API is a standalone one
	anchor := &Step{Op: "match", API: "snapshot", Cfg: "c", Val: strVal("anchor")}
	if c.St != "missing" {
		sc.Procs = append(sc.Procs, &Proc{Spec: ProcSpec{}, Real: true, State: "call", Tests: map[string]*TDef{
			"TestA": {Execs: [][]*Step{{{Op: "match", API: c.API, Cfg: "c", Val: v1}}}},
			"TestB": {Execs: [][]*Step{{anchor}}},
		}})
	}
	spec := ProcSpec{CI: c.CI}
	if c.CI == "off" {
		spec.CI = ""
	}
	if c.UpdVar != "<unset>" {
		spec.UpdVar = sp(c.UpdVar)
	}
	// every fourth cell runs with ambient settings the table does not mention (a -update flag of
	// the host test binary, UPDATE*/GOLDEN variables): they must not move the cell
	hh := fnv.New32a()
	hh.Write([]byte(id))
	noise := hh.Sum32()%4 == 0
	spec.Noise = noise
	cfg := map[string]string{"unset": "c", "true": "ut", "false": "uf"}[c.Upd]
	val := v1
	if c.St == "different" {
		val = v2
	}
	anchor2 := &Step{Op: "match", API: "snapshot", Cfg: "c", Val: strVal("anchor")}
	sc.Procs = append(sc.Procs, &Proc{Spec: spec, Real: true, State: "call", Clean: &CleanDef{Sort: c.Sort}, Tests: map[string]*TDef{
		"TestA": {Execs: [][]*Step{{{Op: "match", API: c.API, Cfg: cfg, Val: val}}}},
		"TestB": {Execs: [][]*Step{{anchor2}}},
	}})
	sc.Note = fmt.Sprintf("cell ci=%s upd=%s UPDATE_SNAPS=%s api=%s entry=%s sort=%v obsolete=%v ambient=%v", c.CI, c.Upd, c.UpdVar, c.API, c.St, c.Sort, c.Obsolete, noise)
	return sc
}

func checkC05(c *CheckCtx) error {
	c.Rule = "cells of the mode table: CI{off,CI=true,GITHUB_ACTIONS=true,BUILD_NUMBER=42,CI=false+vendor} x Update{unset,true,false} x UPDATE_SNAPS{unset,true,clean,TRUE,1,yes,false,empty} x 5 APIs x entry{missing,equal,different} x sort x obsolete; every cell is distinct and non-trivial (one real process pair)"
	c.Assumptions = []string{"CI detection is the library's start-up capture (ciinfo): CI=true, GITHUB_ACTIONS=true and a bare BUILD_NUMBER are 'on', CI=false wins over vendor variables", "the recording process of a cell runs off CI with defaults"}
	dir, err := specDir(c.Sc, c.Sc.Next("mc"))
	if err != nil {
		return err
	}
	res, err := runTLC(dir, "MC_Mode.tla", "MC_Mode.cfg", 4, 10*time.Minute)
	if err != nil {
		return err
	}
	if res.Violation {
		return inconclusive("the mode table violates the statement of C05 in the specification itself: %s", res.ViolatedBy)
	}
	c.model("MC_Mode.cfg", res, true, "CellOK and TableOK hold on every cell")
	if c.thorough() {
		if err := c.contractModel(false); err != nil {
			return err
		}
		// independent engine: Apalache (symbolic) checks the same statement of the table
		adir, err := specDir(c.Sc, c.Sc.Next("apa"))
		if err != nil {
			return err
		}
		ctx, cancel := context.WithTimeout(context.Background(), 5*time.Minute)
		cmd := exec.CommandContext(ctx, "apalache-mc", "check", "--inv=Inv", "--length=1", "ApaMode.tla")
		cmd.Dir = adir
		out, aerr := cmd.CombinedOutput()
		cancel()
		switch {
		case aerr == nil && strings.Contains(string(out), "NoError"):
			c.note("Apalache cross-check of Mode!TableOK: NoError")
		case strings.Contains(string(out), "Error") && strings.Contains(string(out), "invariant"):
			return inconclusive("Apalache disagrees with TLC about Mode!TableOK:\n%s", tail(out, 1500))
		default:
			c.note("Apalache cross-check not available in this environment (%v)", aerr)
		}
	}
	var cells []*modeCell
	for _, line := range res.Printed {
		s, err := strconv.Unquote(line)
		if err != nil {
			return inconclusive("cannot unquote cell: %v", err)
		}
		mc := &modeCell{}
		if err := json.Unmarshal([]byte(strings.TrimPrefix(s, "@@")), mc); err != nil {
			return inconclusive("cannot parse cell: %v", err)
		}
		cells = append(cells, mc)
	}
	total := len(cells)
	if !c.thorough() {
		// a quarter of the table per seed, chosen by hash so that all seeds together cover it
		var sel []*modeCell
		for _, mc := range cells {
			h := fnv.New32a()
			b, _ := json.Marshal(mc.Cell)
			h.Write(b)
			if int64(h.Sum32()%4) == c.Seed%4 {
				sel = append(sel, mc)
			}
		}
		cells = sel
	}
	c.Exhaustive = c.thorough()
	var scs []*Scenario
	for i, mc := range cells {
		sc := cellScenario(fmt.Sprintf("cell%d", i), mc)
		scs = append(scs, sc)
		c.nontrivial(sc.Note)
	}
	c.sample(map[string]any{"cell": cells[0].Cell, "contract_expects": cells[0].Expect})
	c.note("%d of %d cells executed in this tier", len(cells), total)
	if err := c.runSeq(scs); err != nil {
		return err
	}
	// the pair space of the line-level model through the standalone API: every (stored, received)
	// body pair x process mode, including the empty value
	if err := c.replayModel("Gen_Framing_pairs.cfg", 0, 0, "mp", c.pick(800, 0), "ssnap", "snapshot"); err != nil {
		return err
	}
	// beyond the table: random programs in every mode (all APIs, several calls, Clean)
	g := newFgen(c.Seed*31+5, "m")
	rs := genCleanScenarios(g, c.pick(40, 600), allAPIs, []string{"ci", "gha", "update", "clean", "other", "default", "ci+update"},
		cleanGenOpts{maxTests: 3, maxCalls: 3, change: 0.4, drop: 0.2, add: 0.2, staleProb: 0.6, decoyProb: 0.6, sortProb: 0.5, againProb: 0.2})
	for _, s := range rs {
		c.nontrivial(s.Note)
	}
	return c.runSeq(rs)
}
