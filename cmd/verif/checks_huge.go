package main

import (
	"bytes"
	"encoding/json"
	"fmt"
	"strings"
)

// Boundary sizes: thresholds that implementations like to introduce (token limits, "large input"
// fast paths, truncated diffs) sit at powers of two and round numbers far above what ordinary
// histories reach. Two families go beyond 1 MiB per line / per document and 10000 lines per value.

// hugeLine: a multi-entry value with one line of 1.2 MiB between ordinary lines (C01, C03).
func hugeLine() []*Scenario {
	return append(hugeLineOf("hugeline", "snapshot", 1200*1024+17, "first line\n", "\nlast line"),
		hugeLineOf("hugeyaml", "yaml", 6*1024*1024+5, "# a document with one very long scalar\nblob: \"", "\"\nafter: true\n")...)
}

func hugeLineOf(id, api string, size int, head, tail string) []*Scenario {
	big := strings.Repeat("x", size)
	v := head + big + tail
	v2 := head + big[:len(big)-1] + "y" + tail
	sc := &Scenario{ID: id, Configs: stdConfigs(), Program: []string{"TestA", "TestB"}}
	mk := func(a string) []*Step {
		return []*Step{{Op: "begin", Name: "TestA"}, {Op: "match", Name: "TestA", API: api, Cfg: "c", Val: strVal(a)}, {Op: "end", Name: "TestA"},
			{Op: "begin", Name: "TestB"}, {Op: "match", Name: "TestB", API: "snapshot", Cfg: "c", Val: strVal("after the big one")}, {Op: "end", Name: "TestB"}}
	}
	sc.Procs = append(sc.Procs, &Proc{Spec: procSpec("default"), Steps: mk(v)})
	sc.Procs = append(sc.Procs, &Proc{Spec: procSpec("ci"), Steps: mk(v)})
	sc.Procs = append(sc.Procs, &Proc{Spec: procSpec("ci"), Steps: mk(v2)})
	sc.Procs = append(sc.Procs, &Proc{Spec: procSpec("update"), Steps: mk(v2)})
	sc.Procs = append(sc.Procs, &Proc{Spec: procSpec("ci"), Steps: mk(v2)})
	sc.Note = fmt.Sprintf("a %s value with one line of %d bytes: record, replay, one byte changed, update, replay", api, size)
	return []*Scenario{sc}
}

// hugeDoc: a JSON document of 2500 records (about 0.9 MB compact, 1.4 MB indented, more than 10000
// lines when stored) through MatchStandaloneJSON, then a small document through MatchJSON
// (C12, C14, C16): presentation and size must not change what is stored, a difference near the
// end must be reported, and nothing of it may stick to later calls.
func hugeDoc() []*Scenario {
	type rec struct {
		Name string   `json:"name"`
		ID   int      `json:"id"`
		Blob string   `json:"blob"`
		Tags []string `json:"tags"`
	}
	build := func(lastName string) (string, string) {
		var b strings.Builder
		b.WriteByte('[')
		for i := 0; i < 2500; i++ {
			if i > 0 {
				b.WriteByte(',')
			}
			name := fmt.Sprintf("n%d", i)
			if i == 2499 {
				name = lastName
			}
			// members deliberately not in sorted order in the input
			fmt.Fprintf(&b, `{"name":%q,"id":%d,"blob":%q,"tags":["t%d","u"]}`, name, i, strings.Repeat(string(rune('a'+i%26)), 300), i%7)
		}
		b.WriteByte(']')
		compact := b.String()
		var ind bytes.Buffer
		json.Indent(&ind, []byte(compact), "", strings.Repeat(" ", 32))
		return compact, ind.String()
	}
	compact, indented := build("last")
	changed, _ := build("LAST")
	small := `{"b":1,"a":{"d":2,"c":3}}`
	sc := &Scenario{ID: "hugedoc", Configs: stdConfigs(), Program: []string{"TestA", "TestB"}}
	one := func(test, api, doc string) []*Step {
		return []*Step{{Op: "begin", Name: test}, {Op: "match", Name: test, API: api, Cfg: "c", Val: strVal(doc)}, {Op: "end", Name: test}}
	}
	sc.Procs = append(sc.Procs, &Proc{Spec: procSpec("default"), Steps: one("TestA", "sjson", compact)})
	sc.Procs = append(sc.Procs, &Proc{Spec: procSpec("ci"), Steps: one("TestA", "sjson", indented)})
	sc.Procs = append(sc.Procs, &Proc{Spec: procSpec("ci"), Steps: one("TestA", "sjson", changed)})
	sc.Procs = append(sc.Procs, &Proc{Spec: procSpec("default"), Steps: append(one("TestA", "sjson", indented), one("TestB", "json", small)...)})
	sc.Procs = append(sc.Procs, &Proc{Spec: procSpec("ci"), Steps: one("TestB", "json", small)})
	sc.Note = fmt.Sprintf("a JSON document of %d bytes compact / %d bytes indented: stored once, other presentation replayed, last record changed, then a small document", len(compact), len(indented))
	return []*Scenario{sc}
}
