package main

import (
	"encoding/json"
	"fmt"
	"runtime"
	"time"
)

var devCmds = map[string]func(c *CheckCtx) error{}

// development entry points (not used by the manifest)
func runDev(args []string) (int, error) {
	if len(args) < 2 {
		return 2, fmt.Errorf("dev what?")
	}
	sc, err := newScratch("dev")
	if err != nil {
		return 2, err
	}
	defer sc.Close()
	c := &CheckCtx{Prop: "DEV", Tier: "quick", Seed: seed(), Sc: sc, Workers: runtime.NumCPU(), start: time.Now(),
		Nontrivial: map[string]int{}, Stats: map[string]int{}, KnownHit: map[string]string{}}
	loadFindings()
	if f, ok := devCmds[args[1]]; ok {
		c.Prop = "C09"
		c.devRun = true
		if len(args) > 2 {
			c.Prop = args[2]
		}
		if err := f(c); err != nil {
			return 2, err
		}
		return c.finish()
	}
	switch args[1] {
	case "framing":
		g := newFgen(c.Seed, "h")
		n := 40
		scs := genRecordReplay(g, n, []string{"snapshot", "json", "yaml", "ssnap", "sjson"}, []string{"default", "ci", "update", "clean", "other"}, 0.4)
		d, err := c.driver()
		if err != nil {
			return 2, err
		}
		t0 := time.Now()
		runs, err := runScenarios(c.Sc, d, scs, c.Workers)
		if err != nil {
			return 2, err
		}
		fmt.Println("ran", len(runs), "scenarios in", time.Since(t0))
		a := newAbsCtx(c.Sc.Root, d.GoJSON)
		var all []map[string]any
		for _, r := range runs {
			evs, err := abstractRun(a, r, d.Dir)
			if err != nil {
				return 2, err
			}
			all = append(all, evs...)
		}
		t0 = time.Now()
		v, err := validateTrace(c.Sc, "TraceSeq", all)
		if err != nil {
			return 2, err
		}
		fmt.Println("validated", len(all), "events in", time.Since(t0))
		b, _ := json.MarshalIndent(v.Stats, "", " ")
		fmt.Println(string(b))
		for _, m := range v.Bad {
			ev := all[m.L-1]
			fmt.Println("BAD", m.String(), propsOfMismatch(m, ev), candidateSignatures(&m, ev, nil))
		}
		for _, d := range v.Drift {
			fmt.Println("DRIFT", d)
		}
	}
	return 0, nil
}

func init() {
	devCmds["clean1"] = func(c *CheckCtx) error {
		g := newFgen(c.Seed*31+5, "m")
		rs := genCleanScenarios(g, 3, allAPIs, []string{"clean"},
			cleanGenOpts{maxTests: 3, maxCalls: 3, change: 0.4, drop: 0.2, add: 0.2, staleProb: 1, decoyProb: 1, sortProb: 0.5, againProb: 0.2})
		return c.runSeq(rs)
	}
}

func init() {
	devCmds["conc1"] = func(c *CheckCtx) error {
		d, err := buildGatedDriver(c.Sc, "gated", false)
		if err != nil {
			return err
		}
		calls := []concCall{{G: "A", Test: "TestA", Kind: "match", Value: "value of A"}}
		runs, err := runScenarios(c.Sc, d, []*Scenario{concScenario("x1", calls, []int{0}, false, nil)}, 1)
		if err != nil {
			return err
		}
		for _, e := range runs[0].Raw[0] {
			b, _ := json.Marshal(e)
			s := string(b)
			if len(s) > 600 {
				s = s[:600]
			}
			fmt.Println(s)
		}
		return nil
	}
}

func init() {
	devCmds["race"] = func(c *CheckCtx) error { c.Prop = "C06"; return c.raceRun() }
}
