package main

import (
	"fmt"
	"strings"
)

// C01-C04, C18: the framing family (DESIGN.md §6).

func init() {
	register("C01", "model_checking", "TLC refinement check of the line-level model (MC_Framing) + TLC-generated and random record/replay histories executed on the real code and validated by TLC against the contract (TraceSeq)", checkC01)
	register("C02", "model_checking", "TLC over all stored/received body pairs (MC_Framing, Gen_Framing_pairs) replayed on the real code with colours on and off, traces validated by TLC against the contract", checkC02)
	register("C03", "model_checking", "TLC refinement check of addressing/isolation at line level + replay of generated and random histories (repeated executions, prefix names, >9 ordinals, failing calls), traces validated by TLC", checkC03)
	register("C04", "model_checking", "TLC refinement check of update mode at line level + generated update histories (initial files x changed subsets x body pairs) executed on the real code in three processes, traces validated by TLC", checkC04)
	register("C18", "model_checking", "line-level model with YAML concretisation: verbatim storage, terminator-like lines, invalid input; traces validated by TLC", checkC18)
}

const framingAssumptions = "values format deterministically; no line of a multi-entry value ends in CR (documented limitation); test names are what testing produces; pre-existing files are well-formed frames with unique ids; strings without TAB/VT/FF format to themselves through kr/pretty (others are compared by identity only)"

// framingModel runs the exhaustive refinement check of the line-level model.
func framingModel(c *CheckCtx) error {
	dir, err := specDir(c.Sc, c.Sc.Next("mc"))
	if err != nil {
		return err
	}
	cfg := "MC_Framing.cfg"
	if c.thorough() {
		cfg = "MC_Framing_thorough.cfg"
	}
	res, err := runTLC(dir, "MC_Framing_gen.tla", cfg, c.Workers, 25*60*1e9)
	if err != nil {
		return err
	}
	if res.Violation {
		return inconclusive("the line-level model violates %s without a known-finding signature: the specification needs attention, no verdict about the code\n%s", res.ViolatedBy, tail([]byte(res.Output), 2500))
	}
	c.model(cfg, res, true, "FileRefines, OutcomeRefines, OthersKeptInPlace hold modulo K1/K2 signatures")
	return nil
}

func (c *CheckCtx) replayModel(cfg string, simulate, depth int, tag string, limit int, apis ...string) error {
	hs, res, err := modelHistories(c.Sc, "MC_Framing_gen.tla", cfg, simulate, depth, c.Seed)
	if err != nil {
		return err
	}
	c.model(cfg, res, simulate == 0, fmt.Sprintf("%d distinct histories emitted", len(hs)))
	if limit > 0 && len(hs) > limit {
		// deterministic thinning by seed
		step := len(hs) / limit
		var th []*ModelHist
		for i := int(c.Seed) % step; i < len(hs) && len(th) < limit; i += step {
			th = append(th, hs[i])
		}
		hs = th
	}
	if len(apis) == 0 {
		apis = []string{"snapshot"}
	}
	var scs []*Scenario
	for _, api := range apis {
		scs = append(scs, scenariosFromModel(hs, c.Seed, tag+api[:2], api)...)
	}
	for _, s := range scs {
		c.nontrivial("model:" + s.Note)
	}
	if len(scs) > 0 {
		c.sample(map[string]any{"source": cfg, "history": hs[0]})
	}
	return c.runSeq(scs)
}

func (c *CheckCtx) randomFraming(n int, apis, modes []string, changeProb float64, tag string) error {
	g := newFgen(c.Seed*7919+int64(len(tag)), tag)
	scs := genRecordReplay(g, n, apis, modes, changeProb)
	for _, s := range scs {
		c.nontrivial("random:" + s.Note)
	}
	if len(scs) > 0 {
		c.sample(map[string]any{"source": "random record/replay", "note": scs[0].Note, "procs": len(scs[0].Procs), "first_steps": firstSteps(scs[0], 6)})
	}
	return c.runSeq(scs)
}

func firstSteps(s *Scenario, n int) []string {
	var out []string
	for _, p := range s.Procs {
		for _, st := range p.Steps {
			if len(out) >= n {
				return out
			}
			out = append(out, fmt.Sprintf("%s %s %s %s", st.Op, st.Name, st.API, valString(st.Val)))
		}
	}
	return out
}

var allAPIs = []string{"snapshot", "json", "yaml", "ssnap", "sjson"}
var multiAPIs = []string{"snapshot", "json", "yaml"}

func checkC01(c *CheckCtx) error {
	c.Rule = "histories: (i) every history the TLC generation configs emit within their bounds, (ii) seeded random record/replay programs; non-trivial = distinct abstract history (operation shape and values) that reaches a replaying call"
	c.Assumptions = []string{framingAssumptions}
	if err := framingModel(c); err != nil {
		return err
	}
	if err := c.replayModel("Gen_Framing_free.cfg", 0, 0, "mf", c.pick(1500, 0)); err != nil {
		return err
	}
	if err := c.replayModel("Gen_Framing_sim.cfg", c.pick(400, 6000), 8, "ms", 0); err != nil {
		return err
	}
	if err := c.randomFraming(c.pick(120, 2500), multiAPIs, []string{"ci", "default", "gha", "color"}, 0.0, "r"); err != nil {
		return err
	}
	if err := c.randomFraming(c.pick(60, 1000), allAPIs, []string{"ci", "default", "update", "clean"}, 0.3, "q"); err != nil {
		return err
	}
	if err := c.repro(hugeLine()...); err != nil {
		return err
	}
	if err := c.repro(symlinkedSnapFile()...); err != nil {
		return err
	}
	if err := c.repro(crlfCheckout()...); err != nil {
		return err
	}
	// a run whose Clean legitimately rewrites files (sorting, pruning) in between: the recorded
	// values must still replay in a following read-only run
	return c.randomClean(c.pick(60, 1000), "w", []string{"default", "clean", "update"},
		cleanGenOpts{maxTests: 4, maxCalls: 4, staleProb: 0.7, decoyProb: 0.2, sortProb: 0.7, ciReplay: true})
}

func checkC02(c *CheckCtx) error {
	c.Rule = "pairs (stored, received): every ordered pair of bodies of the TLC pair configuration x 4 modes, plus seeded random programs whose second run changes values; non-trivial = distinct history with a differing pair"
	c.Assumptions = []string{framingAssumptions}
	if err := framingModel(c); err != nil {
		return err
	}
	cfg := "Gen_Framing_pairs.cfg"
	if c.thorough() {
		cfg = "Gen_Framing_pairs6.cfg"
	}
	if err := c.replayModel(cfg, 0, 0, "mp", 0, "snapshot", "ssnap"); err != nil {
		return err
	}
	if err := c.randomFraming(c.pick(100, 2000), allAPIs, []string{"default", "ci", "color", "other", "clean"}, 0.8, "r"); err != nil {
		return err
	}
	var rf []*Scenario
	for _, api := range []string{"json", "sjson"} {
		for _, sc := range reformatted(api, "rf"+api) {
			sc.Tags = append(sc.Tags, "also:C02")
			rf = append(rf, sc)
		}
	}
	if err := c.repro(rf...); err != nil {
		return err
	}
	return c.diffPairs()
}

func checkC03(c *CheckCtx) error {
	if c.thorough() {
		if err := c.contractModel(false); err != nil {
			return err
		}
	}
	c.Rule = "histories of test executions over initial files: TLC-emitted (free and simulated) and seeded random programs with repeated executions, interleaved lifetimes, prefix-related names, >9 calls, failing calls; non-trivial = distinct history"
	c.Assumptions = []string{framingAssumptions, "k counts the calls of one execution of a test that resolve to the same multi-entry file"}
	if err := framingModel(c); err != nil {
		return err
	}
	if err := c.replayModel("Gen_Framing_free.cfg", 0, 0, "mf", c.pick(1200, 0)); err != nil {
		return err
	}
	if err := c.replayModel("Gen_Framing_sim.cfg", c.pick(500, 8000), 8, "ms", 0); err != nil {
		return err
	}
	// two entries then a third call in every mode, over lines that end or start with a header text
	if err := c.replayModel("Gen_Framing_sfx.cfg", 0, 0, "mx", 0); err != nil {
		return err
	}
	if err := c.repro(crlfCheckout()...); err != nil {
		return err
	}
	if err := c.repro(symlinkedDir()...); err != nil {
		return err
	}
	if err := c.repro(hugeLine()...); err != nil {
		return err
	}
	return c.randomFraming(c.pick(160, 3000), allAPIs, []string{"default", "ci", "update", "other"}, 0.4, "r")
}

// symlinkedDir: the Dir option reaches the snapshot directory through a symbolic link and the file
// does not exist yet: the k-th call of a test still addresses slot k, in the recording run (where
// the file comes into being between the calls) and in the replay.
func symlinkedDir() []*Scenario {
	var out []*Scenario
	for i, api := range []string{"snapshot", "json", "ssnap"} {
		sc := &Scenario{ID: fmt.Sprintf("symdir%d", i), Configs: stdConfigs(), Program: []string{"TestA", "TestB"}}
		sc.Configs["al"] = &Cfg{Dir: sp("@/alias")}
		sc.Init = append(sc.Init, InitFile{P: "snaps", IsDir: true}, InitFile{P: "alias", Content: []byte("snaps"), Role: "symlink", Owner: "dir"})
		mk := func() []*Step {
			st := []*Step{{Op: "begin", Name: "TestA"}}
			for k := 0; k < 3; k++ {
				st = append(st, &Step{Op: "match", Name: "TestA", API: api, Cfg: "al", Val: seqValue(api, k)})
			}
			st = append(st, &Step{Op: "end", Name: "TestA"}, &Step{Op: "begin", Name: "TestB"},
				&Step{Op: "match", Name: "TestB", API: api, Cfg: "al", Val: seqValue(api, 7)}, &Step{Op: "match", Name: "TestB", API: api, Cfg: "al", Val: seqValue(api, 8)}, &Step{Op: "end", Name: "TestB"})
			return st
		}
		sc.Procs = append(sc.Procs, &Proc{Spec: procSpec("default"), Steps: mk()})
		sc.Procs = append(sc.Procs, &Proc{Spec: procSpec("ci"), Steps: mk()})
		sc.Note = "Dir through a symbolic link, fresh file, three calls of one test via " + api + ": record, replay"
		out = append(out, sc)
	}
	return out
}

// symlinkedSnapFile: the snapshot file is a symbolic link to a well-formed file kept elsewhere (a
// shared golden directory, an annexed or content-addressed store): recorded values replay.
func symlinkedSnapFile() []*Scenario {
	sc := &Scenario{ID: "symfile", Configs: stdConfigs(), Program: []string{"TestA", "TestB"}}
	sc.Init = append(sc.Init,
		InitFile{P: "store/golden.snap", Content: []byte("\n[TestA - 1]\nalpha\n---\n\n[TestB - 1]\nbeta\nsecond\n---\n"), Role: "other"},
		InitFile{P: "snaps/main_test.snap", Content: []byte("../store/golden.snap"), Role: "symlink", Owner: "multi"})
	steps := []*Step{{Op: "begin", Name: "TestA"}, {Op: "match", Name: "TestA", API: "snapshot", Cfg: "c", Val: strVal("alpha")}, {Op: "end", Name: "TestA"},
		{Op: "begin", Name: "TestB"}, {Op: "match", Name: "TestB", API: "snapshot", Cfg: "c", Val: strVal("beta\nsecond")}, {Op: "end", Name: "TestB"}}
	sc.Procs = append(sc.Procs, &Proc{Spec: procSpec("ci"), Steps: steps})
	sc.Procs = append(sc.Procs, &Proc{Spec: procSpec("default"), Steps: steps})
	sc.Note = "the snapshot file is a symbolic link to a well-formed file: read-only and default-mode replay"
	return []*Scenario{sc}
}

// crlfCheckout: a snapshot file that was checked out with CRLF line endings still addresses the
// same slots: replay passes, an update rewrites only its entry, new entries are appended.
func crlfCheckout() []*Scenario {
	lf := "\n[TestA - 1]\nalpha\n---\n\n[TestA - 2]\ntwo\nlines\n---\n\n[TestB - 1]\nbeta\n---\n"
	var out []*Scenario
	for i, mode := range []string{"update", "default"} {
		sc := &Scenario{ID: fmt.Sprintf("crlf%d", i), Configs: stdConfigs(), Program: []string{"TestA", "TestB", "TestC"}}
		sc.Init = append(sc.Init, InitFile{P: "snaps/main_test.snap", Content: []byte(strings.ReplaceAll(lf, "\n", "\r\n")), Role: "multi", CRLF: true})
		t := func(name string, vals ...string) []*Step {
			st := []*Step{{Op: "begin", Name: name}}
			for _, v := range vals {
				st = append(st, &Step{Op: "match", Name: name, API: "snapshot", Cfg: "c", Val: strVal(v)})
			}
			return append(st, &Step{Op: "end", Name: name})
		}
		sc.Procs = append(sc.Procs, &Proc{Spec: procSpec("ci"), Steps: append(t("TestA", "alpha", "two\nlines"), t("TestB", "beta")...)})
		sc.Procs = append(sc.Procs, &Proc{Spec: procSpec(mode), Steps: append(t("TestA", "alpha CHANGED", "two\nlines"), t("TestC", "new")...)})
		sc.Procs = append(sc.Procs, &Proc{Spec: procSpec("ci"), Steps: append(append(t("TestA", "alpha", "two\nlines"), t("TestB", "beta")...), t("TestC", "new")...)})
		sc.Note = "multi-entry file with CRLF line endings: replay, " + mode + " with one changed value and one new test, replay"
		out = append(out, sc)
	}
	return out
}

func checkC04(c *CheckCtx) error {
	c.Rule = "update histories: TLC pair configuration (record; update-mode process; ...) and simulated histories, plus seeded random programs run as record / update / read-only CI replay; non-trivial = distinct history containing an update-enabled process"
	c.Assumptions = []string{framingAssumptions}
	if err := framingModel(c); err != nil {
		return err
	}
	cfg := "Gen_Framing_pairs.cfg"
	if c.thorough() {
		cfg = "Gen_Framing_pairs6.cfg"
	}
	if err := c.replayModel(cfg, 0, 0, "mp", 0, "snapshot", "ssnap"); err != nil {
		return err
	}
	if err := c.replayModel("Gen_Framing_sim.cfg", c.pick(400, 6000), 8, "ms", 0); err != nil {
		return err
	}
	if err := c.replayModel("Gen_Framing_sfx.cfg", 0, 0, "mx", 0); err != nil {
		return err
	}
	if err := c.updateShapes(); err != nil {
		return err
	}
	return c.randomFraming(c.pick(140, 2500), allAPIs, []string{"update", "update", "update", "default"}, 0.5, "r")
}

func checkC18(c *CheckCtx) error {
	c.Rule = "YAML documents (multi-document streams, block scalars with ---, comments, trailing blank lines, header-shaped flow sequences, Go values) x record/replay/update histories; non-trivial = distinct history with a YAML call"
	c.Assumptions = []string{framingAssumptions, "no independent YAML parser offline: validity of the generated documents was established with the library's own goccy/go-yaml and is fixed in the generator"}
	if err := framingModel(c); err != nil {
		return err
	}
	if err := c.randomFraming(c.pick(200, 3000), []string{"yaml"}, []string{"ci", "default", "update", "color"}, 0.4, "y"); err != nil {
		return err
	}
	if err := c.repro(hugeLine()...); err != nil {
		return err
	}
	return c.randomFraming(c.pick(60, 800), []string{"yaml", "snapshot", "json"}, []string{"ci", "update"}, 0.3, "z")
}

// placeholders filled in by later files
// diffPairs: pairs that differ in as little as possible (C02's quantifier), through MatchSnapshot
// and MatchStandaloneSnapshot, compared in a second process with colours on and off.
func (c *CheckCtx) diffPairs() error {
	long := strings.Repeat("q", 100000)
	pairs := [][2]string{
		{"a", "a "}, {"a", " a"}, {"a\n", "a"}, {"a\n\n", "a\n"}, {"a b", "a  b"}, {"A", "a"}, {"", " "}, {"", "\n"},
		{"abc\xffdef", "abc\xfedef"}, {"l1\nabc\xffdef\nl3", "l1\nabc\xfedef\nl3"}, {"\xff", "\xfe"}, {"x\xc3\x28", "x\xc3\x29"},
		{"\u00e9", "e\u0301"}, {"---", "--- "}, {"a\n---\nb", "a\n--- \nb"}, {"a\n---\nb", "a\n----\nb"}, {long + "0", long + "1"},
		{"l1\nl2\nl3", "l1\nl2\nl3\n"}, {"x\ny", "x\n\ny"}, {"tab\tx", "tab\ty"}, {"\x00", "\x01"}, {"[TestGhost - 1]", "[TestGhost - 2]"},
	}
	crPairs := [][2]string{{"a\r\nb", "a\nb"}, {"a\r\n", "a\n"}, {"x\r", "x"}, {"l1\r\nl2\r\nl3", "l1\nl2\nl3"}, {"l1\nl2\r\nl3", "l1\nl2\nl3"}, {"a\r\rb", "a\rb"}}
	var scs []*Scenario
	n := 0
	add := func(api string, st, rc string, color bool) {
		n++
		sc := &Scenario{ID: fmt.Sprintf("dp%d", n), Configs: stdConfigs(), Program: []string{"TestA"}}
		mk := func(v string) []*Step {
			return []*Step{{Op: "begin", Name: "TestA"}, {Op: "match", Name: "TestA", API: api, Cfg: "c", Val: strVal(v)}, {Op: "end", Name: "TestA"}}
		}
		sc.Procs = append(sc.Procs, &Proc{Spec: ProcSpec{}, Steps: mk(st)})
		sc.Procs = append(sc.Procs, &Proc{Spec: ProcSpec{Color: color}, Steps: mk(rc)})
		sc.Note = fmt.Sprintf("minimal difference via %s colours=%v: %q vs %q", api, color, clip(st), clip(rc))
		scs = append(scs, sc)
		c.nontrivial(sc.Note)
	}
	for _, p := range pairs {
		for _, api := range []string{"snapshot", "ssnap"} {
			for _, col := range []bool{false, true} {
				add(api, p[0], p[1], col)
				add(api, p[1], p[0], col)
			}
		}
	}
	for _, p := range crPairs {
		for _, col := range []bool{false, true} {
			add("ssnap", p[0], p[1], col)
			add("ssnap", p[1], p[0], col)
		}
	}
	return c.runSeq(scs)
}
func (c *CheckCtx) updateShapes() error { return nil }
