package main

import (
	"bufio"
	"bytes"
	"context"
	"encoding/json"
	"fmt"
	"os"
	"os/exec"
	"path/filepath"
	"regexp"
	"sort"
	"strconv"
	"strings"
	"time"
)

type TLCResult struct {
	Generated  int64
	Distinct   int64
	Depth      int
	Output     string
	Violation  bool   // an invariant / property / postcondition failed
	ViolatedBy string // name
	Wall       float64
	Printed    []string // lines printed by PrintT
}

var (
	reStates    = regexp.MustCompile(`(\d+) states generated, (\d+) distinct states found`)
	reSimStates = regexp.MustCompile(`^The number of states generated: (\d+)`)
	reDepth     = regexp.MustCompile(`The depth of the complete state graph search is (\d+)`)
	reInv       = regexp.MustCompile(`Invariant (\S+) is violated`)
	reProp      = regexp.MustCompile(`(?:Temporal properties were violated|Action property (\S+) is violated|Error: The postcondition)`)
)

// specDir copies the specification modules into a fresh TLC working directory.
func specDir(sc *Scratch, name string) (string, error) {
	dir := sc.Sub(name)
	src := filepath.Join(verifHome, "spec")
	ents, err := os.ReadDir(src)
	if err != nil {
		return "", err
	}
	for _, e := range ents {
		if strings.HasSuffix(e.Name(), ".tla") || strings.HasSuffix(e.Name(), ".cfg") {
			if err := copyFile(filepath.Join(src, e.Name()), filepath.Join(dir, e.Name())); err != nil {
				return "", err
			}
		}
	}
	return dir, nil
}

// runTLC runs TLC on module/config inside dir. A TLC failure other than a property violation
// (parse error, Java error, timeout) is returned as Inconclusive.
func runTLC(dir, module, cfg string, workers int, timeout time.Duration, extra ...string) (*TLCResult, error) {
	meta := filepath.Join(dir, "md-"+strings.TrimSuffix(cfg, ".cfg"))
	os.RemoveAll(meta)
	gc := []string{"-XX:+UseParallelGC"}
	if workers == 1 {
		// trace validation runs many single-worker JVMs side by side
		gc = []string{"-XX:+UseParallelGC", "-XX:ParallelGCThreads=2", "-Xmx6g", "-XX:TieredStopAtLevel=4"}
	}
	args := append(gc, "-Xss512m",
		"-cp", "/opt/veriftools/tla/tla2tools.jar:/opt/veriftools/tla/CommunityModules-deps.jar",
		"tlc2.TLC", "-metadir", meta, "-noGenerateSpecTE", "-config", cfg, "-workers", strconv.Itoa(workers))
	args = append(args, extra...)
	args = append(args, module)
	ctx, cancel := context.WithTimeout(context.Background(), timeout)
	defer cancel()
	cmd := exec.CommandContext(ctx, "java", args...)
	cmd.Dir = dir
	cmd.Env = append(os.Environ(), "JAVA_TOOL_OPTIONS=")
	start := time.Now()
	out, err := cmd.CombinedOutput()
	res := &TLCResult{Output: string(out), Wall: time.Since(start).Seconds()}
	os.RemoveAll(meta)
	if ctx.Err() != nil {
		return res, inconclusive("TLC timed out after %v on %s/%s", timeout, module, cfg)
	}
	sc := bufio.NewScanner(bytes.NewReader(out))
	sc.Buffer(nil, 64<<20)
	for sc.Scan() {
		line := sc.Text()
		if m := reStates.FindStringSubmatch(line); m != nil {
			res.Generated, _ = strconv.ParseInt(m[1], 10, 64)
			res.Distinct, _ = strconv.ParseInt(m[2], 10, 64)
		}
		if m := reSimStates.FindStringSubmatch(line); m != nil && res.Generated == 0 {
			res.Generated, _ = strconv.ParseInt(m[1], 10, 64) // simulation mode: states checked along random behaviours
		}
		if m := reDepth.FindStringSubmatch(line); m != nil {
			res.Depth, _ = strconv.Atoi(m[1])
		}
		if m := reInv.FindStringSubmatch(line); m != nil {
			res.Violation = true
			res.ViolatedBy = m[1]
		}
		if reProp.MatchString(line) {
			res.Violation = true
			if res.ViolatedBy == "" {
				res.ViolatedBy = strings.TrimSpace(line)
			}
		}
		if strings.HasPrefix(line, "\"@@") || strings.HasPrefix(line, "<<\"@@") {
			res.Printed = append(res.Printed, line)
		}
	}
	// TLC's workers print in no fixed order; everything downstream (seeded thinning, sampling) must
	// see the same sequence on every run
	sort.Strings(res.Printed)
	if err != nil && !res.Violation {
		return res, inconclusive("TLC failed on %s/%s: %v\n%s", module, cfg, err, tail(out, 3000))
	}
	if !res.Violation && !strings.Contains(res.Output, "Model checking completed. No error has been found") &&
		!strings.Contains(res.Output, "Finished in") {
		return res, inconclusive("TLC did not complete on %s/%s:\n%s", module, cfg, tail(out, 3000))
	}
	return res, nil
}

// ---------------------------------------------------------------- trace validation

type Mismatch struct {
	H     string `json:"h"`
	L     int    `json:"l"`
	Check string `json:"check"`
	Exp   string `json:"exp"`
	Got   string `json:"got"`
	St    string `json:"st"`
	Path  string `json:"path"`
	Hdr   string `json:"hdr"`
	Info  string `json:"info"`
	Sig   string `json:"sig"`
	Casc  bool   `json:"casc"`
}

type Drift struct {
	H      string `json:"h"`
	L      int    `json:"l"`
	Action string `json:"action"`
	Path   string `json:"path"`
}

type TraceVerdict struct {
	Bad    []Mismatch     `json:"bad"`
	Drift  []Drift        `json:"drift"`
	Stats  map[string]int `json:"stats"`
	Events int            `json:"events"`
	TLC    *TLCResult     `json:"-"`
}

// validateTrace writes the abstract events as trace.ndjson and lets TLC check them against the
// trace specification `module`. TLC deciding that the trace is not a behaviour of the trace
// specification at all (postcondition) means the harness and the specification disagree about the
// trace format: inconclusive, never a violation.
func validateTrace(sc *Scratch, module string, events []map[string]any) (*TraceVerdict, error) {
	dir, err := specDir(sc, sc.Next("tv"))
	if err != nil {
		return nil, err
	}
	var buf bytes.Buffer
	enc := json.NewEncoder(&buf)
	enc.SetEscapeHTML(false)
	for _, e := range events {
		if err := enc.Encode(e); err != nil {
			return nil, err
		}
	}
	if err := os.WriteFile(filepath.Join(dir, "trace.ndjson"), buf.Bytes(), 0o644); err != nil {
		return nil, err
	}
	res, err := runTLC(dir, module+".tla", module+".cfg", 1, 20*time.Minute)
	if err != nil {
		return nil, err
	}
	if res.Violation {
		return nil, inconclusive("trace specification %s rejected the trace format (not a property verdict): %s\n%s",
			module, res.ViolatedBy, tail([]byte(res.Output), 3000))
	}
	b, err := os.ReadFile(filepath.Join(dir, "result.json"))
	if err != nil {
		return nil, inconclusive("trace specification %s wrote no result: %v\n%s", module, err, tail([]byte(res.Output), 3000))
	}
	v := &TraceVerdict{TLC: res}
	if err := json.Unmarshal(b, v); err != nil {
		return nil, inconclusive("unreadable result of %s: %v", module, err)
	}
	if v.Events != len(events) {
		return nil, inconclusive("trace specification consumed %d of %d events", v.Events, len(events))
	}
	if os.Getenv("VERIF_KEEP") == "" {
		os.RemoveAll(dir)
	}
	return v, nil
}

func (m Mismatch) String() string {
	return fmt.Sprintf("%s@%d %s exp=%s got=%s st=%s path=%s hdr=%s info=%s", m.H, m.L, m.Check, m.Exp, m.Got, m.St, m.Path, m.Hdr, m.Info)
}

// ---------------------------------------------------------------- histories emitted by generation configs

type ModelHist struct {
	Init struct {
		Lines []string `json:"lines"`
		NL    bool     `json:"nl"`
	} `json:"init"`
	Hist []struct {
		Op   string   `json:"op"`
		T    string   `json:"t"`
		V    []string `json:"v"`
		Mode string   `json:"mode"`
	} `json:"hist"`
}

// modelHistories runs a generation configuration (BFS when simulate == 0, else -simulate) and
// returns the de-duplicated histories TLC printed.
func modelHistories(sc *Scratch, module, cfg string, simulate, depth int, seed int64) ([]*ModelHist, *TLCResult, error) {
	dir, err := specDir(sc, sc.Next("gen"))
	if err != nil {
		return nil, nil, err
	}
	var extra []string
	workers := 8
	if simulate > 0 {
		workers = 1
		extra = []string{"-simulate", fmt.Sprintf("num=%d", simulate), "-depth", strconv.Itoa(depth), "-seed", strconv.FormatInt(seed, 10)}
	}
	res, err := runTLC(dir, module, cfg, workers, 10*time.Minute, extra...)
	if err != nil {
		return nil, res, err
	}
	if res.Violation {
		return nil, res, inconclusive("generation config %s reported a violation: %s", cfg, res.ViolatedBy)
	}
	seen := map[string]bool{}
	var out []*ModelHist
	for _, line := range res.Printed {
		s, err := strconv.Unquote(line)
		if err != nil {
			return nil, res, inconclusive("cannot unquote TLC output line: %v: %.200s", err, line)
		}
		s = strings.TrimPrefix(s, "@@")
		if seen[s] {
			continue
		}
		seen[s] = true
		h := &ModelHist{}
		if err := json.Unmarshal([]byte(s), h); err != nil {
			return nil, res, inconclusive("cannot parse emitted history: %v", err)
		}
		out = append(out, h)
	}
	os.RemoveAll(dir)
	return out, res, nil
}
