package main

import (
	"fmt"
	"runtime"
	"time"
)

// verif selftest: demonstrates the binding between the specification and the code (DESIGN.md
// §4.4). Recorded traces of real runs must be accepted as they are, and must be REJECTED at
// exactly the corrupted line when one recorded field is changed. A self-test that does not reject
// is exit 2: the machinery would be vacuous.
func runSelftest(fast bool) (int, error) {
	sc, err := newScratch("selftest")
	if err != nil {
		return 2, err
	}
	defer sc.Close()
	c := &CheckCtx{Prop: "SELFTEST", Tier: "quick", Seed: 1, Sc: sc, Workers: runtime.NumCPU(), start: time.Now(),
		Nontrivial: map[string]int{}, Stats: map[string]int{}, KnownHit: map[string]string{}}
	if err := loadFindings(); err != nil {
		return 2, err
	}
	d, err := c.driver()
	if err != nil {
		return 2, err
	}
	// a handful of real histories: record/replay/update (bulk) and a real-runner program with Clean
	g := newFgen(4242, "st")
	scs := genRecordReplay(g, 6, []string{"snapshot", "json", "yaml", "ssnap"}, []string{"update", "ci", "default"}, 0.5)
	scs = append(scs, genCleanScenarios(g, 3, []string{"snapshot", "ssnap"}, []string{"clean", "default"},
		cleanGenOpts{maxTests: 2, maxCalls: 3, change: 0.3, drop: 0.5, add: 0.2, staleProb: 1, decoyProb: 1, sortProb: 0.5})...)
	runs, err := runScenarios(sc, d, scs, c.Workers)
	if err != nil {
		return 2, err
	}
	a := newAbsCtx(sc.Root, d.GoJSON)
	var events []map[string]any
	for _, r := range runs {
		evs, err := abstractRun(a, r, d.Dir)
		if err != nil {
			return 2, err
		}
		events = append(events, evs...)
	}
	v, err := validateTrace(sc, "TraceSeq", events)
	if err != nil {
		return 2, err
	}
	unknown := 0
	for _, m := range v.Bad {
		if len(candidateSignatures(&m, events[m.L-1], nil)) == 0 {
			unknown++
			fmt.Println("selftest: unexpected divergence on the unchanged tree:", m.String())
		}
	}
	if unknown > 0 {
		return 2, inconclusive("selftest: the recorded traces of the unchanged tree are not accepted")
	}
	fmt.Printf("selftest: %d events of %d real histories accepted (%d calls, %d cleans)\n", len(events), len(scs), v.Stats["calls"], v.Stats["cleans"])

	type corruption struct {
		name  string
		apply func(evs []map[string]any) int // returns the 1-based line it corrupted, 0 if not applicable
		want  string
	}
	clone := func() []map[string]any {
		out := make([]map[string]any, len(events))
		for i, e := range events {
			ne := map[string]any{}
			for k, v := range e {
				ne[k] = v
			}
			out[i] = ne
		}
		return out
	}
	cors := []corruption{
		{"an 'added' outcome recorded as 'passed'", func(evs []map[string]any) int {
			for i, e := range evs {
				if e["ev"] == "match" && e["logk"] == "added" && e["nerr"] == 0 {
					e["nlog"], e["logk"] = 0, "none"
					return i + 1
				}
			}
			return 0
		}, "outcome"},
		{"a line dropped from a projected file", func(evs []map[string]any) int {
			for i, e := range evs {
				if e["ev"] != "match" || e["logk"] != "added" {
					continue
				}
				fs, _ := e["fs"].([]any)
				for fi, f := range fs {
					rec := f.(map[string]any)
					ls, _ := rec["lines"].([]string)
					if rec["kind"] == "file" && len(ls) >= 3 {
						nr := map[string]any{}
						for k, v := range rec {
							nr[k] = v
						}
						nr["lines"] = append(append([]string{}, ls[:len(ls)-2]...), ls[len(ls)-1])
						nfs := append([]any{}, fs...)
						nfs[fi] = nr
						e["fs"] = nfs
						return i + 1
					}
				}
			}
			return 0
		}, ""},
		{"a summary total changed", func(evs []map[string]any) int {
			for i, e := range evs {
				if e["ev"] == "clean" {
					sum := map[string]any{}
					for k, v := range e["sum"].(map[string]any) {
						sum[k] = v
					}
					sum["passed"] = sum["passed"].(int) + 1
					e["sum"] = sum
					return i + 1
				}
			}
			return 0
		}, "summary.total"},
		{"an unlisted stale item (obsolete list emptied)", func(evs []map[string]any) int {
			for i, e := range evs {
				if e["ev"] == "clean" {
					sum := map[string]any{}
					for k, v := range e["sum"].(map[string]any) {
						sum[k] = v
					}
					if ts, _ := sum["tests"].([]string); len(ts) > 0 {
						sum["tests"] = []string{}
						sum["ntests"] = 0
						e["sum"] = sum
						return i + 1
					}
				}
			}
			return 0
		}, "clean."},
	}
	if fast {
		cors = cors[:3]
	}
	for _, cor := range cors {
		evs := clone()
		line := cor.apply(evs)
		if line == 0 {
			return 2, inconclusive("selftest: corruption %q found nothing to corrupt", cor.name)
		}
		v, err := validateTrace(sc, "TraceSeq", evs)
		if err != nil {
			return 2, err
		}
		hit := false
		for _, m := range v.Bad {
			if m.L == line && (cor.want == "" || len(m.Check) >= len(cor.want) && m.Check[:len(cor.want)] == cor.want) {
				hit = true
			}
		}
		if !hit {
			return 2, inconclusive("selftest: corrupted trace (%s at line %d) was NOT rejected there: the binding is vacuous", cor.name, line)
		}
		fmt.Printf("selftest: corrupted trace rejected at line %d (%s)\n", line, cor.name)
	}
	if !fast {
		// design level: with the known-finding exclusions lifted / the repaired deviation switched on,
		// the implementation-shaped models must produce the counterexamples by themselves
		for _, m := range [][3]string{
			{"MC_Framing_gen.tla", "MC_Framing_K.cfg", "K1/K2 (header shadowing, terminator/escape conflation)"},
			{"MC_Clean_gen.tla", "MC_Clean_K.cfg", "K6 (unrecognised headers)"},
			{"MC_Config_gen.tla", "MC_Config_F1.cfg", "F1 (Config written by MatchStandaloneJSON)"},
		} {
			dir, err := specDir(sc, sc.Next("k"))
			if err != nil {
				return 2, err
			}
			res, err := runTLC(dir, m[0], m[1], 8, 10*time.Minute)
			if err != nil {
				return 2, err
			}
			if !res.Violation {
				return 2, inconclusive("selftest: %s/%s no longer produces the counterexample for %s: the model is vacuous", m[0], m[1], m[2])
			}
			fmt.Printf("selftest: %s finds %s by itself (%s after %d states)\n", m[1], m[2], res.ViolatedBy, res.Distinct)
		}
	}
	fmt.Println("selftest OK")
	return 0, nil
}
