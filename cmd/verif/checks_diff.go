package main

import (
	"bytes"
	"encoding/base64"
	"encoding/json"
	"fmt"
	"math/rand"
	"os"
	"os/exec"
	"path/filepath"
	"regexp"
	"strconv"
	"strings"
	"time"
)

// C13: the failure report (DESIGN.md §6 C13). DiffSpec.tla states the relation, TLC enumerates the
// exhaustive domain and evaluates the relation on what the real code produced:
//   - opcodes / hunks from the white-box probe injected into internal/difflib (D4, go test -overlay)
//   - report texts (NO_COLOR and coloured) through failing MatchStandaloneSnapshot calls (D1)

func init() {
	register("C13", "model_checking", "DiffSpec.tla states the report relation; TLC enumerates all pairs of line sequences over a 3-letter alphabet (MC_Diff) and evaluates the relation on the real outputs: edit script and hunks from a white-box probe in internal/difflib (go test -overlay), report texts from failing standalone calls with colours on and off", checkC13)
}

type diffCase struct {
	KA, KB []string // sequences as enumerated
	A, B   string   // texts
	Dom    bool
}

type probeOp struct {
	T  int `json:"t"`
	I1 int `json:"i1"`
	I2 int `json:"i2"`
	J1 int `json:"j1"`
	J2 int `json:"j2"`
}

type probeOut struct {
	Ops    []probeOp   `json:"ops"`
	Groups [][]probeOp `json:"groups"`
}

func splitLines(s string) []string { return strings.Split(s, "\n") }

// runDiffProbe injects the probe into internal/difflib with an overlay and runs it on the pairs.
func runDiffProbe(sc *Scratch, cases []*diffCase) ([]probeOut, error) {
	dir := sc.Sub(sc.Next("probe"))
	src := filepath.Join(verifHome, "harness", "overlay", "difflib", "zz_verif_probe_test.go")
	dst := filepath.Join(dir, "zz_verif_probe_test.go")
	if err := copyFile(src, dst); err != nil {
		return nil, err
	}
	ov := map[string]map[string]string{"Replace": {filepath.Join(repoDir, "internal", "difflib", "zz_verif_probe_test.go"): dst}}
	ob, _ := json.Marshal(ov)
	ovPath := filepath.Join(dir, "overlay.json")
	os.WriteFile(ovPath, ob, 0o644)
	type in struct {
		A []string `json:"a"` // base64: JSON strings cannot carry arbitrary bytes
		B []string `json:"b"`
	}
	ins := make([]in, len(cases))
	for i, c := range cases {
		for _, l := range splitLines(c.A) {
			ins[i].A = append(ins[i].A, base64.StdEncoding.EncodeToString([]byte(l+"\n")))
		}
		for _, l := range splitLines(c.B) {
			ins[i].B = append(ins[i].B, base64.StdEncoding.EncodeToString([]byte(l+"\n")))
		}
	}
	ib, _ := json.Marshal(ins)
	inPath := filepath.Join(dir, "in.json")
	outPath := filepath.Join(dir, "out.json")
	os.WriteFile(inPath, ib, 0o644)
	cmd := exec.Command("go", "test", "-tags", "verif", "-overlay", ovPath, "-vet=off", "-count=1", "-run", "^TestVerifDiffProbe$", "./internal/difflib")
	cmd.Dir = repoDir
	cmd.Env = goEnv("VERIF_DIFF_IN="+inPath, "VERIF_DIFF_OUT="+outPath)
	out, err := cmd.CombinedOutput()
	if err != nil {
		return nil, fmt.Errorf("probe build/run failed: %v\n%s", err, tail(out, 1500))
	}
	b, err := os.ReadFile(outPath)
	if err != nil {
		return nil, err
	}
	var outs []probeOut
	if err := json.Unmarshal(b, &outs); err != nil {
		return nil, err
	}
	if len(outs) != len(cases) {
		return nil, fmt.Errorf("probe returned %d results for %d cases", len(outs), len(cases))
	}
	return outs, nil
}

// realReports executes every pair as: stored standalone file = a, MatchStandaloneSnapshot(b) with
// Update(false); returns the error texts (the report) per case, "" when the call passed.
func (c *CheckCtx) realReports(cases []*diffCase, color bool) ([]string, error) {
	d, err := c.driver()
	if err != nil {
		return nil, err
	}
	var scs []*Scenario
	for i, dc := range cases {
		sc := &Scenario{ID: fmt.Sprintf("d%d", i), Configs: stdConfigs(), Program: []string{"TestA"}}
		sc.Init = append(sc.Init, InitFile{P: "snaps/TestA_1.snap", Content: []byte(dc.A), Role: "alone", Owner: "TestA"})
		sc.Procs = append(sc.Procs, &Proc{Spec: ProcSpec{Color: color}, Steps: []*Step{
			{Op: "begin", Name: "TestA"},
			{Op: "match", Name: "TestA", API: "ssnap", Cfg: "uf", Val: strVal(dc.B)},
			{Op: "end", Name: "TestA"},
		}})
		scs = append(scs, sc)
	}
	runs, err := runScenarios(c.Sc, d, scs, c.Workers)
	if err != nil {
		return nil, err
	}
	out := make([]string, len(cases))
	for i, r := range runs {
		found := false
		for _, e := range r.Raw[0] {
			if e != nil && e.Ev == "match" {
				found = true
				if len(e.Errs) > 1 || len(e.Logs) > 0 {
					return nil, inconclusive("diff case %d: unexpected signals (%d errors, %d logs)", i, len(e.Errs), len(e.Logs))
				}
				if len(e.Errs) == 1 {
					b, _ := base64.StdEncoding.DecodeString(e.Errs[0])
					out[i] = string(b)
				}
			}
		}
		if !found {
			return nil, inconclusive("diff case %d: no match event", i)
		}
	}
	return out, nil
}

var (
	hdrDel   = regexp.MustCompile(`^- Snapshot\s+- (-?\d+)$`)
	hdrIns   = regexp.MustCompile(`^\+ Received\s+\+ (-?\d+)$`)
	rangeRe  = regexp.MustCompile(`^@@ -(\d+)(?:,(\d+))? \+(\d+)(?:,(\d+))? @@$`)
	footerRe = regexp.MustCompile(`^at .*:\d+$`)
)

type repLine struct {
	T string `json:"t"`
	S string `json:"s"`
}

type repHunk struct {
	SA    int       `json:"sa"`
	LA    int       `json:"la"`
	SB    int       `json:"sb"`
	LB    int       `json:"lb"`
	Lines []repLine `json:"lines"`
}

type ncReport struct {
	Empty  bool      `json:"empty"`
	Esc    bool      `json:"esc"`
	Del    int       `json:"del"`
	Ins    int       `json:"ins"`
	WF     bool      `json:"wf"`
	Exact  bool      `json:"exact"` // the hunks say where they sit, Aligned can be evaluated
	Ranged bool      `json:"ranged"`
	Hunks  []repHunk `json:"hunks"`
}

func unifiedRange(start, length string) (int, int) {
	s, _ := strconv.Atoi(start)
	if length == "" {
		return s - 1, 1
	}
	l, _ := strconv.Atoi(length)
	if l == 0 {
		return s, 0
	}
	return s - 1, l
}

// parseNoColorReport parses the NO_COLOR grammar (DESIGN.md §6 C13): every content line carries a
// two-byte tag, so the parse is unambiguous.
func parseNoColorReport(rep string, na, nb int) ncReport {
	r := ncReport{Hunks: []repHunk{}}
	if rep == "" {
		r.Empty = true
		r.WF = true
		return r
	}
	r.Esc = strings.Contains(rep, "\x1b")
	lines := strings.Split(rep, "\n")
	// "\n- Snapshot - D\n+ Received + I\n\n" body "\n" ["at path:line\n"]
	if len(lines) < 5 || lines[0] != "" {
		return r
	}
	m1 := hdrDel.FindStringSubmatch(lines[1])
	m2 := hdrIns.FindStringSubmatch(lines[2])
	if m1 == nil || m2 == nil || lines[3] != "" {
		return r
	}
	r.Del, _ = strconv.Atoi(m1[1])
	r.Ins, _ = strconv.Atoi(m2[1])
	body := lines[4:]
	// strip the trailing "" produced by the final newline, the optional footer and the blank line
	if len(body) > 0 && body[len(body)-1] == "" {
		body = body[:len(body)-1]
	}
	if len(body) > 0 && footerRe.MatchString(body[len(body)-1]) {
		body = body[:len(body)-1]
	}
	if len(body) > 0 && body[len(body)-1] == "" {
		body = body[:len(body)-1]
	} else {
		return r
	}
	var cur *repHunk
	flush := func() {
		if cur != nil {
			r.Hunks = append(r.Hunks, *cur)
		}
	}
	for i := 0; i < len(body); i++ {
		l := body[i]
		if m := rangeRe.FindStringSubmatch(l); m != nil && i+1 < len(body) && body[i+1] == "" {
			flush()
			cur = &repHunk{Lines: []repLine{}}
			cur.SA, cur.LA = unifiedRange(m[1], m[2])
			cur.SB, cur.LB = unifiedRange(m[3], m[4])
			r.Ranged = true
			i++
			continue
		}
		if cur == nil {
			cur = &repHunk{Lines: []repLine{}, SA: 0, LA: na, SB: 0, LB: nb}
		}
		if len(l) < 2 {
			return r
		}
		tag, text := l[:2], l[2:]
		switch tag {
		case "- ":
			cur.Lines = append(cur.Lines, repLine{"-", text})
		case "+ ":
			cur.Lines = append(cur.Lines, repLine{"+", text})
		case "  ":
			if text == "↵" {
				text = ""
			}
			cur.Lines = append(cur.Lines, repLine{" ", text})
		default:
			return r
		}
	}
	flush()
	r.WF = true
	// without range headers the single hunk is the whole of both texts only when nothing was
	// omitted, which is guaranteed for texts of at most 7 lines (no equal run longer than 6)
	r.Exact = r.Ranged || (na <= 7 && nb <= 7)
	return r
}

var sgrCount = regexp.MustCompile("\x1b\\[[0-9;]*m")

func parseColourHeader(rep string) (bool, int, int) {
	if rep == "" {
		return true, 0, 0
	}
	del, ins := -9, -9
	for _, l := range strings.Split(sgrCount.ReplaceAllString(rep, ""), "\n") {
		if m := hdrDel.FindStringSubmatch(l); m != nil && del == -9 {
			del, _ = strconv.Atoi(m[1])
		}
		if m := hdrIns.FindStringSubmatch(l); m != nil && ins == -9 {
			ins, _ = strconv.Atoi(m[1])
		}
	}
	return false, del, ins
}

func tokenise(a *absCtx, ls []string) []string { return a.lines(ls) }

func opsJSON(ops []probeOp) []map[string]int {
	out := make([]map[string]int, len(ops))
	for i, o := range ops {
		out[i] = map[string]int{"t": o.T, "i1": o.I1, "i2": o.I2, "j1": o.J1, "j2": o.J2}
	}
	return out
}

// judgeDiffCases gathers the real outputs for the cases and lets TLC evaluate DiffSpec on them.
func (c *CheckCtx) judgeDiffCases(cases []*diffCase, cfg string, label string) error {
	probe, perr := runDiffProbe(c.Sc, cases)
	if perr != nil {
		if _, ok := perr.(*Inconclusive); ok {
			return perr
		}
		c.note("opcode sub-clause NOT evaluated (white-box probe could not be built against the current tree): %v", perr)
	}
	nc, err := c.realReports(cases, false)
	if err != nil {
		return err
	}
	col, err := c.realReports(cases, true)
	if err != nil {
		return err
	}
	a := newAbsCtx(c.Sc.Root, nil)
	differing, unparsed := 0, 0
	dir, err := specDir(c.Sc, c.Sc.Next("diff"))
	if err != nil {
		return err
	}
	var buf bytes.Buffer
	enc := json.NewEncoder(&buf)
	enc.SetEscapeHTML(false)
	for i, dc := range cases {
		al, bl := splitLines(dc.A), splitLines(dc.B)
		rep := parseNoColorReport(nc[i], len(al), len(bl))
		if dc.A != dc.B {
			differing++
			if !rep.WF {
				unparsed++
			}
		}
		for h := range rep.Hunks {
			for k := range rep.Hunks[h].Lines {
				rep.Hunks[h].Lines[k].S = a.line(rep.Hunks[h].Lines[k].S)
			}
		}
		cempty, cdel, cins := parseColourHeader(col[i])
		rec := map[string]any{
			"n": i, "dom": dc.Dom, "ka": dc.KA, "kb": dc.KB,
			"a": tokenise(a, al), "b": tokenise(a, bl), "same": dc.A == dc.B,
			"hasops": perr == nil, "ops": []any{}, "groups": []any{},
			"nc":  rep,
			"col": map[string]any{"empty": cempty, "del": cdel, "ins": cins},
		}
		if dc.KA == nil {
			rec["ka"], rec["kb"] = []string{}, []string{}
		}
		if perr == nil {
			rec["ops"] = opsJSON(probe[i].Ops)
			gs := make([]any, len(probe[i].Groups))
			for g := range probe[i].Groups {
				gs[g] = opsJSON(probe[i].Groups[g])
			}
			rec["groups"] = gs
		}
		if err := enc.Encode(rec); err != nil {
			return err
		}
	}
	if err := os.WriteFile(filepath.Join(dir, "diffcases.ndjson"), buf.Bytes(), 0o644); err != nil {
		return err
	}
	if differing > 20 && unparsed*2 > differing {
		return inconclusive("the NO_COLOR report grammar is not the one this check reads (%d of %d differing cases unparsed): the rendering changed; no verdict about the clauses of C13 (the 30-line parser needs to follow)", unparsed, differing)
	}
	res, err := runTLC(dir, "MC_Diff.tla", cfg, c.Workers, 30*time.Minute, "-continue")
	if err != nil {
		if strings.Contains(res.Output, "Assumption") {
			return inconclusive("the cases do not cover the enumerated domain (harness problem): %s", tail([]byte(res.Output), 1500))
		}
		return err
	}
	c.model(cfg+" ["+label+"]", res, strings.Contains(cfg, "MC_Diff") && !strings.Contains(cfg, "free"), fmt.Sprintf("%d cases judged", len(cases)))
	c.Validated += len(cases)
	c.Evaluations += 2 * len(cases)
	if res.Violation {
		// every violated state is a real output; report each (i = index of the case)
		re := regexp.MustCompile(`(?s)Invariant (\w+) is violated.*?/\\ i = (\d+)`)
		seen := map[string]bool{}
		for _, m := range re.FindAllStringSubmatch(res.Output, -1) {
			idx, _ := strconv.Atoi(m[2])
			dc := cases[idx-1]
			key := m[1]
			if seen[key] {
				continue
			}
			seen[key] = true
			what := fmt.Sprintf("[%s] stored=%q received=%q nocolor-report=%q coloured-report=%q", m[1], clip(dc.A), clip(dc.B), clip(nc[idx-1]), clip(col[idx-1]))
			extra, _ := json.Marshal(map[string]any{"a_b64": base64.StdEncoding.EncodeToString([]byte(dc.A)), "b_b64": base64.StdEncoding.EncodeToString([]byte(dc.B)), "invariant": m[1]})
			c.Violations = append(c.Violations, &Violation{Prop: c.Prop, What: what, Kind: "diff", Extra: extra})
		}
		if len(seen) == 0 {
			return inconclusive("MC_Diff reported a violation that could not be located:\n%s", tail([]byte(res.Output), 2000))
		}
	}
	return nil
}

func clip(s string) string {
	if len(s) > 160 {
		return s[:160] + "…"
	}
	return s
}

// generated texts beyond the exhaustive domain
func genDiffTexts(seed int64, n int) []*diffCase {
	r := rand.New(rand.NewSource(seed))
	word := func() string {
		return []string{"alpha", "beta", "gamma", "", " ", "x", "y", "z", "- dash", "+ plus", "@@ -1 +1 @@", "  indented", "two  spaces", "100%", "%d items %s", "a%20b%", "\xff\xfe", "é", "same", "same", "same"}[r.Intn(18)]
	}
	text := func(n int) []string {
		ls := make([]string, n)
		for i := range ls {
			ls[i] = word()
		}
		return ls
	}
	mutate := func(ls []string) []string {
		out := append([]string{}, ls...)
		k := 1 + r.Intn(3)
		for ; k > 0 && len(out) > 0; k-- {
			i := r.Intn(len(out))
			switch r.Intn(5) {
			case 0:
				out = append(out[:i], out[i+1:]...)
			case 1:
				out = append(out[:i], append([]string{word()}, out[i:]...)...)
			case 2:
				out[i] = out[i] + " "
			case 3:
				out = append(out[:i], append([]string{out[i]}, out[i:]...)...) // duplicate a line
			default:
				out[i] = word() + "!"
			}
		}
		return out
	}
	var out []*diffCase
	for i := 0; i < n; i++ {
		var a []string
		switch i % 5 {
		case 0:
			a = text(11 + r.Intn(20)) // hunk headers
		case 1:
			a = text(201 + r.Intn(60)) // popular-line heuristic
			for k := 0; k < len(a); k++ {
				if k%2 == 0 || r.Intn(3) == 0 { // runs of the popular line occur
					a[k] = "popular"
				}
			}
		case 2:
			a = text(1 + r.Intn(7))
		case 3:
			a = text(30 + r.Intn(30))
		default:
			a = text(12)
			for k := range a {
				a[k] = "dup"
			}
		}
		b := mutate(a)
		if i%5 == 1 && i%2 == 1 {
			// a single changed line directly before a run of popular lines
			b = append([]string{}, a...)
			for k := 1; k+2 < len(b); k++ {
				if b[k] == "popular" && b[k+1] == "popular" {
					b[k] = "changed before a popular run"
					break
				}
			}
		}
		if i%7 == 0 {
			b = append([]string{}, a...) // identical
		}
		if i%11 == 0 && len(a) > 20 {
			b = mutate(mutate(append([]string{}, a...)))
			b[len(b)-1] = "changed far away"
			b[0] = "changed at the start"
		}
		out = append(out, &diffCase{A: strings.Join(a, "\n"), B: strings.Join(b, "\n")})
	}
	// whitespace-only / invalid UTF-8 only / trailing newline only differences
	special := [][2]string{{"a\r\nb", "a\nb"}, {"a\r\n", "a\n"}, {"x\r", "x"}, {"l1\r\nl2\r\nl3", "l1\nl2\nl3"}, {"l1\nl2\r\nl3", "l1\nl2\nl3"}, {"a", "a "}, {"a\n", "a"}, {"a\xffb", "a\xfeb"}, {"l1\na\xffb\nl3", "l1\na\xfeb\nl3"}, {"", "\n"}, {"", "x"}, {"x", ""},
		// different lines with equal 32-bit FNV-1a digests: a matcher that indexes lines by a digest
		// must still compare the lines themselves
		{"liquid", "costarring"}, {"altarage", "zinke"}, {"declinate", "macallums"},
		{"head\nliquid\ntail", "head\ncostarring\ntail"}, {"a\nb\naltarage\nc\nd\ne\nf\ng\nh\ni\nj\nk", "a\nb\nzinke\nc\nd\ne\nf\ng\nh\ni\nj\nk"},
		{"A", "a"}, {"é", "é"}, {"x\n\n\ny", "x\n\ny"}, {strings.Repeat("q", 100000) + "0", strings.Repeat("q", 100000) + "1"}}
	for _, sp := range special {
		out = append(out, &diffCase{A: sp[0], B: sp[1]})
	}
	// thousands of equal lines, then the only difference (no prefix of the texts decides)
	for _, n := range []int{5200, 12000} {
		ls := make([]string, n)
		for i := range ls {
			ls[i] = fmt.Sprintf("line %05d %s", i, string(rune('a'+i%26)))
		}
		a := strings.Join(ls, "\n")
		ls[n-100] = "changed far down"
		b := strings.Join(append(ls, "appended", "at the end"), "\n")
		out = append(out, &diffCase{A: a, B: b})
	}
	return out
}

func checkC13(c *CheckCtx) error {
	c.Rule = "pairs of texts: exhaustively all ordered pairs of line sequences over {x,y,z} up to length 4 (quick) / 5 (thorough), enumerated by TLC; plus generated texts (>10 lines, >200 lines with a popular line, repeated lines, whitespace-only and invalid-UTF-8-only differences); non-trivial = distinct pair with different texts"
	c.Assumptions = []string{"the NO_COLOR report grammar is the one observed on the pinned tree (two-byte tags, optional @@ ranges); a change of the rendering that keeps the clauses of C13 needs the 30-line parser to follow", "the edit script is read through a white-box probe injected into internal/difflib with go test -overlay; if it no longer compiles the report-level clauses still decide"}
	n := c.pick(4, 5)
	gen := map[int]string{4: "Gen_Diff_4.cfg", 5: "Gen_Diff_5.cfg"}[n]
	chk := map[int]string{4: "MC_Diff_4.cfg", 5: "MC_Diff_5.cfg"}[n]
	dir, err := specDir(c.Sc, c.Sc.Next("gen"))
	if err != nil {
		return err
	}
	res, err := runTLC(dir, "MC_Diff.tla", gen, 1, 10*time.Minute)
	if err != nil {
		return err
	}
	if len(res.Printed) != 1 {
		return inconclusive("Gen_Diff printed %d lines", len(res.Printed))
	}
	s, err := strconv.Unquote(res.Printed[0])
	if err != nil {
		return inconclusive("cannot unquote sequences: %v", err)
	}
	var emitted struct {
		Seqs [][]string `json:"seqs"`
	}
	if err := json.Unmarshal([]byte(strings.TrimPrefix(s, "@@")), &emitted); err != nil {
		return inconclusive("cannot parse sequences: %v", err)
	}
	var cases []*diffCase
	for _, x := range emitted.Seqs {
		for _, y := range emitted.Seqs {
			cases = append(cases, &diffCase{KA: x, KB: y, A: strings.Join(x, "\n"), B: strings.Join(y, "\n"), Dom: true})
			if x != nil && strings.Join(x, "\n") != strings.Join(y, "\n") {
				c.nontrivial(strings.Join(x, ",") + "|" + strings.Join(y, ","))
			}
		}
	}
	c.note("%d line sequences, %d ordered pairs (exhaustive up to length %d)", len(emitted.Seqs), len(cases), n)
	c.Exhaustive = true
	c.sample(map[string]any{"stored_lines": cases[len(cases)/3].KA, "received_lines": cases[len(cases)/3].KB})
	if err := c.judgeDiffCases(cases, chk, "exhaustive domain"); err != nil {
		return err
	}
	gcases := genDiffTexts(c.Seed, c.pick(150, 2500))
	for _, g := range gcases {
		if g.A != g.B {
			c.nontrivial("gen:" + shortHash([]byte(g.A+"\x00"+g.B)))
		}
	}
	return c.judgeDiffCases(gcases, "MC_Diff_free.cfg", "generated texts")
}
