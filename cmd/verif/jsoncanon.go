package main

import (
	"errors"
	"sort"
	"strings"
)

// A tiny JSON reader that keeps scalar literals RAW (so "1.0" and "1", "A" and "A" stay
// different, as they do in go-snaps' stored text) and yields a canonical identity of a document:
// insignificant whitespace removed and, when sortKeys, object members ordered by raw key.
// It is the harness's independent notion of "the same JSON document" (C14), deliberately not
// sharing code with tidwall/pretty or gjson.

type jnode struct {
	kind  byte // 'o' object, 'a' array, 's' scalar (raw)
	raw   string
	keys  []string // raw keys incl. quotes
	elems []*jnode
}

type jparser struct {
	s string
	i int
}

var errJSON = errors.New("invalid json")

func (p *jparser) ws() {
	for p.i < len(p.s) && (p.s[p.i] == ' ' || p.s[p.i] == '\t' || p.s[p.i] == '\n' || p.s[p.i] == '\r') {
		p.i++
	}
}

func (p *jparser) str() (string, error) {
	start := p.i
	if p.i >= len(p.s) || p.s[p.i] != '"' {
		return "", errJSON
	}
	p.i++
	for p.i < len(p.s) {
		c := p.s[p.i]
		switch {
		case c == '\\':
			if p.i+1 >= len(p.s) {
				return "", errJSON
			}
			e := p.s[p.i+1]
			if e == 'u' {
				if p.i+6 > len(p.s) {
					return "", errJSON
				}
				for _, h := range p.s[p.i+2 : p.i+6] {
					if !strings.ContainsRune("0123456789abcdefABCDEF", h) {
						return "", errJSON
					}
				}
				p.i += 6
				continue
			}
			if !strings.ContainsRune(`"\/bfnrt`, rune(e)) {
				return "", errJSON
			}
			p.i += 2
		case c == '"':
			p.i++
			return p.s[start:p.i], nil
		case c < 0x20:
			return "", errJSON
		default:
			p.i++
		}
	}
	return "", errJSON
}

func (p *jparser) num() (string, error) {
	start := p.i
	if p.i < len(p.s) && p.s[p.i] == '-' {
		p.i++
	}
	if p.i >= len(p.s) {
		return "", errJSON
	}
	if p.s[p.i] == '0' {
		p.i++
	} else if p.s[p.i] >= '1' && p.s[p.i] <= '9' {
		for p.i < len(p.s) && p.s[p.i] >= '0' && p.s[p.i] <= '9' {
			p.i++
		}
	} else {
		return "", errJSON
	}
	if p.i < len(p.s) && p.s[p.i] == '.' {
		p.i++
		n := 0
		for p.i < len(p.s) && p.s[p.i] >= '0' && p.s[p.i] <= '9' {
			p.i++
			n++
		}
		if n == 0 {
			return "", errJSON
		}
	}
	if p.i < len(p.s) && (p.s[p.i] == 'e' || p.s[p.i] == 'E') {
		p.i++
		if p.i < len(p.s) && (p.s[p.i] == '+' || p.s[p.i] == '-') {
			p.i++
		}
		n := 0
		for p.i < len(p.s) && p.s[p.i] >= '0' && p.s[p.i] <= '9' {
			p.i++
			n++
		}
		if n == 0 {
			return "", errJSON
		}
	}
	return p.s[start:p.i], nil
}

func (p *jparser) value() (*jnode, error) {
	p.ws()
	if p.i >= len(p.s) {
		return nil, errJSON
	}
	switch c := p.s[p.i]; {
	case c == '{':
		p.i++
		n := &jnode{kind: 'o'}
		p.ws()
		if p.i < len(p.s) && p.s[p.i] == '}' {
			p.i++
			return n, nil
		}
		for {
			p.ws()
			k, err := p.str()
			if err != nil {
				return nil, err
			}
			p.ws()
			if p.i >= len(p.s) || p.s[p.i] != ':' {
				return nil, errJSON
			}
			p.i++
			v, err := p.value()
			if err != nil {
				return nil, err
			}
			n.keys = append(n.keys, k)
			n.elems = append(n.elems, v)
			p.ws()
			if p.i < len(p.s) && p.s[p.i] == ',' {
				p.i++
				continue
			}
			if p.i < len(p.s) && p.s[p.i] == '}' {
				p.i++
				return n, nil
			}
			return nil, errJSON
		}
	case c == '[':
		p.i++
		n := &jnode{kind: 'a'}
		p.ws()
		if p.i < len(p.s) && p.s[p.i] == ']' {
			p.i++
			return n, nil
		}
		for {
			v, err := p.value()
			if err != nil {
				return nil, err
			}
			n.elems = append(n.elems, v)
			p.ws()
			if p.i < len(p.s) && p.s[p.i] == ',' {
				p.i++
				continue
			}
			if p.i < len(p.s) && p.s[p.i] == ']' {
				p.i++
				return n, nil
			}
			return nil, errJSON
		}
	case c == '"':
		s, err := p.str()
		if err != nil {
			return nil, err
		}
		return &jnode{kind: 's', raw: s}, nil
	case c == 't' && strings.HasPrefix(p.s[p.i:], "true"):
		p.i += 4
		return &jnode{kind: 's', raw: "true"}, nil
	case c == 'f' && strings.HasPrefix(p.s[p.i:], "false"):
		p.i += 5
		return &jnode{kind: 's', raw: "false"}, nil
	case c == 'n' && strings.HasPrefix(p.s[p.i:], "null"):
		p.i += 4
		return &jnode{kind: 's', raw: "null"}, nil
	default:
		s, err := p.num()
		if err != nil {
			return nil, err
		}
		return &jnode{kind: 's', raw: s}, nil
	}
}

func parseJSONRaw(s string) (*jnode, error) {
	p := &jparser{s: s}
	n, err := p.value()
	if err != nil {
		return nil, err
	}
	p.ws()
	if p.i != len(p.s) {
		return nil, errJSON
	}
	return n, nil
}

func (n *jnode) canon(sortKeys bool, b *strings.Builder) {
	switch n.kind {
	case 's':
		b.WriteString(n.raw)
	case 'a':
		b.WriteByte('[')
		for i, e := range n.elems {
			if i > 0 {
				b.WriteByte(',')
			}
			e.canon(sortKeys, b)
		}
		b.WriteByte(']')
	case 'o':
		idx := make([]int, len(n.keys))
		for i := range idx {
			idx[i] = i
		}
		if sortKeys {
			sort.SliceStable(idx, func(a, c int) bool { return n.keys[idx[a]] < n.keys[idx[c]] })
		}
		b.WriteByte('{')
		for j, i := range idx {
			if j > 0 {
				b.WriteByte(',')
			}
			b.WriteString(n.keys[i])
			b.WriteByte(':')
			n.elems[i].canon(sortKeys, b)
		}
		b.WriteByte('}')
	}
}

// canonJSON returns the canonical identity text of a JSON document, ok=false if invalid.
func canonJSON(s string, sortKeys bool) (string, bool) {
	n, err := parseJSONRaw(s)
	if err != nil {
		return "", false
	}
	var b strings.Builder
	n.canon(sortKeys, &b)
	return b.String(), true
}

// hasDupKeys reports whether some object has two members with the same raw key (excluded from
// generated documents: member order of duplicates is not something C14 speaks about).
func (n *jnode) hasDupKeys() bool {
	if n.kind == 'o' {
		seen := map[string]bool{}
		for _, k := range n.keys {
			if seen[k] {
				return true
			}
			seen[k] = true
		}
	}
	for _, e := range n.elems {
		if e.hasDupKeys() {
			return true
		}
	}
	return false
}
