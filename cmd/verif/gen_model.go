package main

import (
	"fmt"
	"math/rand"
	"strings"
)

// Concretisation (DESIGN.md §4.3): histories enumerated by TLC over structural line classes are
// mapped to concrete programs; the letters "a" and "b" stand for opaque classes drawn per seed.

func concretiser(r *rand.Rand, g *fgen) func(string) string {
	m := map[string]string{}
	if r.Intn(2) == 0 {
		for {
			l := g.opaqueLine()
			if !strings.HasSuffix(l, "\r") && l != "" {
				m["a"] = l
				break
			}
		}
	}
	if r.Intn(3) == 0 {
		m["b"] = "b" + g.opaqueLine()
	}
	return func(s string) string {
		if v, ok := m[s]; ok {
			return v
		}
		return s
	}
}

func modeSpec(mode string) (ProcSpec, string) {
	switch mode {
	case "ci":
		return procSpec("ci"), "c"
	case "update":
		return procSpec("update"), "c"
	case "noupd":
		return procSpec("default"), "uf"
	}
	return procSpec("default"), "c"
}

// scenariosFromModel turns emitted histories into bulk scenarios (MatchSnapshot with string values).
func scenariosFromModel(hs []*ModelHist, seed int64, tag string, api string) []*Scenario {
	r := rand.New(rand.NewSource(seed))
	g := newFgen(seed+17, tag)
	var out []*Scenario
	for _, h := range hs {
		conc := concretiser(r, g)
		sc := &Scenario{ID: g.id(), Configs: stdConfigs()}
		if len(h.Init.Lines) > 0 {
			ls := make([]string, len(h.Init.Lines))
			for i, l := range h.Init.Lines {
				ls[i] = conc(l)
			}
			content := strings.Join(ls, "\n")
			if h.Init.NL {
				content += "\n"
			}
			if api == "snapshot" {
				sc.Init = append(sc.Init, InitFile{P: "snaps/main_test.snap", Content: []byte(content), Role: "multi"})
			}
		}
		spec, cfg := modeSpec("create")
		cur := &Proc{Spec: spec}
		live := map[string]bool{}
		prog := map[string]bool{}
		var shape []string
		for _, op := range h.Hist {
			switch op.Op {
			case "proc":
				sc.Procs = append(sc.Procs, cur)
				spec, cfg = modeSpec(op.Mode)
				cur = &Proc{Spec: spec}
				live = map[string]bool{}
				shape = append(shape, "proc:"+op.Mode)
			case "end":
				cur.Steps = append(cur.Steps, &Step{Op: "end", Name: op.T})
				live[op.T] = false
				shape = append(shape, "end")
			case "match":
				if !live[op.T] {
					cur.Steps = append(cur.Steps, &Step{Op: "begin", Name: op.T})
					live[op.T] = true
				}
				prog[op.T] = true
				ls := make([]string, len(op.V))
				for i, l := range op.V {
					ls[i] = conc(l)
				}
				cur.Steps = append(cur.Steps, &Step{Op: "match", Name: op.T, API: api, Cfg: cfg, Val: strVal(strings.Join(ls, "\n"))})
				shape = append(shape, "match")
			}
		}
		sc.Procs = append(sc.Procs, cur)
		for t := range prog {
			sc.Program = append(sc.Program, t)
		}
		sc.Note = fmt.Sprintf("TLC-generated history via %s %v", api, shape)
		out = append(out, sc)
	}
	return out
}
