package main

import (
	"encoding/json"
	"fmt"
	"strconv"
	"strings"
	"time"
)

// C12 (Config immutability / order independence) and C19 (standalone files).

func init() {
	register("C12", "model_checking", "TLC model of the Config object vs the options it was built with (MC_Config: ConfigImmutable, LocationFromBuiltOptions); every call sequence TLC emits is executed through ONE shared Config on the real code and TLC validates that each effect lands at PathOf(built options)", checkC12)
	register("C19", "model_checking", "contract keeps standalone files as exact values (alone[path] = value); TLC-generated pair and simulated histories replayed through MatchStandaloneSnapshot, random programs with arbitrary bytes and repeated executions; traces validated by TLC", checkC19)
}

type cfgSeq struct {
	Opts struct {
		Dir      string `json:"dir"`
		Filename string `json:"filename"`
		Ext      string `json:"ext"`
	} `json:"opts"`
	Seq []string `json:"seq"`
}

func seqValue(api string, i int) *Val {
	switch api {
	case "json", "sjson":
		return strVal(fmt.Sprintf(`{"call":%d,"k":["v",1,2,3],"short":[1,2]}`, i))
	case "yaml":
		return strVal(fmt.Sprintf("call: %d\nk:\n  - v\n", i))
	}
	return strVal(fmt.Sprintf("call %d\nsecond line", i))
}

func cfgSeqScenario(id string, cs *cfgSeq, update *bool, jsonCfg *JSONCfg, mode string, mix int) *Scenario {
	sc := &Scenario{ID: id, Configs: stdConfigs(), Program: []string{"TestA"}}
	k := &Cfg{Dir: sp("@/snaps"), Update: update, JSON: jsonCfg}
	if cs.Opts.Filename != "" {
		k.Filename = sp(cs.Opts.Filename)
	}
	if cs.Opts.Ext != "" {
		k.Ext = sp(cs.Opts.Ext)
	}
	sc.Configs["k"] = k
	mk := func() []*Step {
		st := []*Step{{Op: "begin", Name: "TestA"}}
		for i, api := range cs.Seq {
			via := ""
			if mix > 0 && (i+mix)%2 == 0 {
				via = "otherfile" // the call is made through a helper of another test file
			}
			st = append(st, &Step{Op: "match", Name: "TestA", API: api, Cfg: "k", Val: seqValue(api, i), Via: via})
		}
		return append(st, &Step{Op: "end", Name: "TestA"})
	}
	sc.Procs = append(sc.Procs, &Proc{Spec: procSpec("default"), Steps: mk()})
	sc.Procs = append(sc.Procs, &Proc{Spec: procSpec(mode), Steps: mk()}) // replay: same locations again
	// the same calls, each through a FRESH Config built from the same options: where a call stores
	// and how it formats must not depend on what went through the shared Config before
	fresh := mk()
	for _, st := range fresh {
		if st.Op == "match" {
			st.Fresh = true
		}
	}
	sc.Procs = append(sc.Procs, &Proc{Spec: procSpec("ci"), Steps: fresh})
	sc.Tags = append(sc.Tags, "also:C12")
	sc.Note = fmt.Sprintf("shared Config {filename=%q ext=%q update=%v json=%v} sequence %v; then %s", cs.Opts.Filename, cs.Opts.Ext, update != nil, jsonCfg != nil, cs.Seq, mode)
	return sc
}

func checkC12(c *CheckCtx) error {
	c.Rule = "sequences of the five entry points through one shared Config: every sequence TLC emits (length <= 3 quick / 4 thorough) x option sets {Filename, Ext} x {Update unset/true/false, JSON options}; plus random programs sharing named Configs; non-trivial = distinct (options, sequence)"
	c.Assumptions = []string{"black box: a Config is observed through where its calls store snapshots and how they behave; data races on Config fields are the race-detector run of C06"}
	dir, err := specDir(c.Sc, c.Sc.Next("mc"))
	if err != nil {
		return err
	}
	cfg := "MC_Config.cfg"
	if c.thorough() {
		cfg = "MC_Config_thorough.cfg"
	}
	res, err := runTLC(dir, "MC_Config_gen.tla", cfg, 4, 10*time.Minute)
	if err != nil {
		return err
	}
	if res.Violation {
		return inconclusive("MC_Config violates %s in the specification itself", res.ViolatedBy)
	}
	c.model(cfg, res, true, "ConfigImmutable and LocationFromBuiltOptions hold with the F1 deviation switched off")
	var scs []*Scenario
	n := 0
	for _, line := range res.Printed {
		s, err := strconv.Unquote(line)
		if err != nil {
			return inconclusive("cannot unquote sequence: %v", err)
		}
		cs := &cfgSeq{}
		if err := json.Unmarshal([]byte(strings.TrimPrefix(s, "@@")), cs); err != nil {
			return inconclusive("cannot parse sequence: %v", err)
		}
		n++
		var upd *bool
		var jc *JSONCfg
		switch n % 4 {
		case 1:
			upd = bp(true)
		case 2:
			upd = bp(false)
		case 3:
			switch (n / 4) % 3 {
			case 0:
				jc = &JSONCfg{Width: 20, Indent: "    ", SortKeys: false}
			case 1:
				jc = &JSONCfg{Width: 0, Indent: " ", SortKeys: true} // as in the library's own examples
			default:
				jc = &JSONCfg{Width: 40, SortKeys: true} // only some fields filled in: no indentation at all
			}
		}
		mode := []string{"ci", "default", "update"}[n%3]
		sc := cfgSeqScenario(fmt.Sprintf("q%d", n), cs, upd, jc, mode, n%3)
		scs = append(scs, sc)
		c.nontrivial(sc.Note)
		if n == 7 {
			c.sample(map[string]any{"source": cfg, "sequence": cs, "note": sc.Note})
		}
	}
	scs = append(scs, houseOptions()...)
	scs = append(scs, writeErrorThenMore()...)
	for _, h := range hugeDoc() {
		// nothing of a call may stick to the package-level defaults other Configs are copied from
		h.Tags = append(h.Tags, "also:C12")
		scs = append(scs, h)
	}
	if err := c.runSeq(scs); err != nil {
		return err
	}
	if err := c.randomFraming(c.pick(80, 1500), allAPIs, []string{"default", "ci", "update"}, 0.3, "r"); err != nil {
		return err
	}
	// concurrent mixes through shared Configs: a Config written during a call is a data race
	// (auxiliary, as in C06: below the abstraction of the specification)
	return c.raceRun()
}

func checkC19(c *CheckCtx) error {
	c.Rule = "standalone histories: all (stored, received) body pairs of the TLC pair configuration and simulated histories through MatchStandaloneSnapshot; random programs of both standalone variants with arbitrary bytes (CR, NUL, invalid UTF-8, empty, no final newline), 1-13 calls per test, up to 3 executions; non-trivial = distinct history"
	c.Assumptions = []string{framingAssumptions, "a standalone Filename pattern is used by one test at a time (the ordinal registry is keyed by path pattern)"}
	if err := framingModel(c); err != nil {
		return err
	}
	cfg := "Gen_Framing_pairs.cfg"
	if c.thorough() {
		cfg = "Gen_Framing_pairs6.cfg"
	}
	if err := c.replayModel(cfg, 0, 0, "mp", 0, "ssnap"); err != nil {
		return err
	}
	if err := c.replayModel("Gen_Framing_sim.cfg", c.pick(300, 5000), 8, "ms", 0, "ssnap"); err != nil {
		return err
	}
	if err := c.randomFraming(c.pick(150, 3000), []string{"ssnap", "ssnap", "sjson"}, []string{"default", "ci", "update", "other", "color"}, 0.4, "r"); err != nil {
		return err
	}
	if err := c.runSeq(reformattedStandalone()); err != nil {
		return err
	}
	if err := c.repro(siblingNames()...); err != nil {
		return err
	}
	return c.repro(reproK8())
}

// siblingNames: subtests whose names differ only in characters that some file systems refuse
// (< > : " | ? * backslash) each own their standalone files: the k-th call of one never reads or
// writes the other's file.
func siblingNames() []*Scenario {
	var out []*Scenario
	for i, pair := range [][2]string{{"a<b", "a>b"}, {"x:y", "x|y"}, {"q?", "q*"}, {"say \"hi\"", "say 'hi'"}, {"back\\slash", "back:slash"}} {
		sc := &Scenario{ID: fmt.Sprintf("sib%d", i), Configs: stdConfigs(), Program: []string{"TestA", "TestA/" + pair[0], "TestA/" + pair[1]}}
		mk := func() []*Step {
			var st []*Step
			for k, n := range pair {
				name := "TestA/" + n
				st = append(st, &Step{Op: "begin", Name: name},
					&Step{Op: "match", Name: name, API: "ssnap", Cfg: "c", Val: strVal(fmt.Sprintf("value of sibling %d", k))},
					&Step{Op: "match", Name: name, API: "sjson", Cfg: "c", Val: strVal(fmt.Sprintf(`{"sibling":%d}`, k))},
					&Step{Op: "end", Name: name})
			}
			return st
		}
		sc.Procs = append(sc.Procs, &Proc{Spec: procSpec("default"), Steps: mk()})
		sc.Procs = append(sc.Procs, &Proc{Spec: procSpec("ci"), Steps: mk()})
		sc.Note = fmt.Sprintf("sibling subtests %q and %q with standalone snapshots: record, replay", pair[0], pair[1])
		out = append(out, sc)
	}
	return out
}

// reformattedStandalone: one standalone JSON file addressed through Configs that differ only in
// their JSON formatting options. The file IS the formatted value (C19): the same document in another
// format is a different file, so the second Config's call fails (or rewrites in update mode).
func reformattedStandalone() []*Scenario { return reformatted("sjson", "rf") }

// reformatted: the same for any JSON entry point (MatchJSON: one slot of a multi-entry file)
func reformatted(api, tag string) []*Scenario {
	docs := []string{`{"b":{"y":[1,2,{"z":"w"}]},"a":{"x":1}}`, `{"list":[{"k":1},{"k":2}],"name":"n"}`}
	fmts := map[string]*JSONCfg{
		"k4":   {Width: 80, Indent: "    ", SortKeys: true},
		"kns":  {Width: 80, Indent: " ", SortKeys: false},
		"kw":   {Width: 3, Indent: " ", SortKeys: true},
		"kfl":  {Width: 80, Indent: "", SortKeys: true},
		"ktab": {Width: 80, Indent: "\t", SortKeys: true},
	}
	names := []string{"k4", "kfl", "kns", "ktab", "kw"}
	var out []*Scenario
	n := 0
	for di, doc := range docs {
		for _, k := range names {
			if k == "kns" && di == 1 {
				continue // keys already sorted: both formats coincide
			}
			if k == "kw" {
				continue // width only matters for arrays of scalars that fit: none here
			}
			for _, mode := range []string{"ci", "default", "update"} {
				for _, rev := range []bool{false, true} {
					n++
					sc := &Scenario{ID: fmt.Sprintf("%s%d", tag, n), Configs: stdConfigs(), Program: []string{"TestA"}}
					sc.Configs[k] = &Cfg{Dir: sp("@/snaps"), JSON: fmts[k]}
					first, second := "c", k
					if rev {
						first, second = k, "c"
					}
					val := strVal(doc)
					mk := func(cfg string) []*Step {
						return []*Step{{Op: "begin", Name: "TestA"}, {Op: "match", Name: "TestA", API: api, Cfg: cfg, Val: val}, {Op: "end", Name: "TestA"}}
					}
					sc.Procs = append(sc.Procs, &Proc{Spec: procSpec("default"), Steps: mk(first)})
					sc.Procs = append(sc.Procs, &Proc{Spec: procSpec(mode), Steps: mk(second)})
					sc.Procs = append(sc.Procs, &Proc{Spec: procSpec("ci"), Steps: mk(second)})
					sc.Procs = append(sc.Procs, &Proc{Spec: procSpec("ci"), Steps: mk(first)})
					sc.Note = fmt.Sprintf("%s value written with %s, addressed with %s in mode %s", api, first, second, mode)
					out = append(out, sc)
				}
			}
		}
	}
	return out
}

// houseOptions: two Configs built from the same option VALUES (a project-wide option list), one of
// them with a further JSON option. Building or using one must not change the other: each formats as
// a fresh Config built from its own options does.
func houseOptions() []*Scenario {
	doc := `{"b":{"y":[1,2,{"z":"w"}]},"a":{"x":1}}`
	var out []*Scenario
	n := 0
	for _, api := range []string{"json", "sjson"} {
		for _, own := range []*JSONCfg{{Width: 80, Indent: "\t", SortKeys: false}, {Width: 80, Indent: "      ", SortKeys: true}} {
			for _, who := range []string{"h", "h2"} {
				n++
				sc := &Scenario{ID: fmt.Sprintf("ho%d", n), Configs: stdConfigs(), Program: []string{"TestA"}, Tags: []string{"also:C12"}}
				sc.Configs["h"] = &Cfg{Dir: sp("@/snaps"), JSON: &JSONCfg{Width: 40, Indent: "  ", SortKeys: true}}
				sc.Configs["h2"] = &Cfg{Dir: sp("@/snaps"), JSON: own, House: "h"}
				mk := func(fresh bool) []*Step {
					return []*Step{{Op: "begin", Name: "TestA"}, {Op: "match", Name: "TestA", API: api, Cfg: who, Val: strVal(doc), Fresh: fresh}, {Op: "end", Name: "TestA"}}
				}
				sc.Procs = append(sc.Procs, &Proc{Spec: procSpec("default"), Steps: mk(false)})
				sc.Procs = append(sc.Procs, &Proc{Spec: procSpec("ci"), Steps: mk(true)})
				sc.Procs = append(sc.Procs, &Proc{Spec: procSpec("ci"), Steps: mk(false)})
				sc.Note = fmt.Sprintf("Configs h and h2 share option values (h2 adds a JSON option); %s through %s, then through a fresh Config built from its options alone", api, who)
				out = append(out, sc)
			}
		}
	}
	return out
}

// writeErrorThenMore: a call through a Config fails on a file-system write error; what later calls
// through the same Config (and through a Config with the same options) do is unchanged: the options
// it was built with still hold.
func writeErrorThenMore() []*Scenario {
	var out []*Scenario
	for i, cfg := range []string{"ut", "c", "uf"} {
		sc := &Scenario{ID: fmt.Sprintf("we%d", i), Configs: stdConfigs(), Program: []string{"TestD", "TestE"}, Tags: []string{"also:C12"}}
		// the standalone file of TestD's first call is a directory: reading and writing it fail
		sc.Init = append(sc.Init, InitFile{P: "snaps/TestD_1.snap", IsDir: true}, InitFile{P: "snaps/TestD_1.snap/occupied", Content: []byte("x"), Role: "other"},
			InitFile{P: "snaps/main_test.snap", Role: "multi", Content: []byte("\n[TestE - 1]\nold\n---\n")})
		steps := []*Step{{Op: "begin", Name: "TestD"},
			{Op: "match", Name: "TestD", API: "ssnap", Cfg: cfg, Val: strVal("cannot be stored"), X: &Expect{Unwritable: true}},
			{Op: "end", Name: "TestD"}, {Op: "begin", Name: "TestE"},
			{Op: "match", Name: "TestE", API: "snapshot", Cfg: cfg, Val: strVal("new value")},
			{Op: "match", Name: "TestE", API: "snapshot", Cfg: cfg, Val: strVal("second")},
			{Op: "match", Name: "TestE", API: "ssnap", Cfg: cfg, Val: strVal("standalone after the error")},
			{Op: "end", Name: "TestE"}}
		sc.Procs = append(sc.Procs, &Proc{Spec: procSpec("default"), Steps: steps})
		sc.Note = "a standalone write error through Config " + cfg + ", then more calls through the same Config"
		out = append(out, sc)
	}
	return out
}
