package main

import (
	"errors"
	"fmt"
	"os"
	"strconv"
)

func usage() {
	fmt.Fprintln(os.Stderr, `usage:
  verif check <Cxx> [--tier quick|thorough]
  verif replay <Cxx> <file>
  verif selftest [--fast]
  verif dev <name>`)
	os.Exit(2)
}

func seed() int64 {
	if v := os.Getenv("VERIF_SEED"); v != "" {
		if n, err := strconv.ParseInt(v, 10, 64); err == nil {
			return n
		}
	}
	return 1
}

func main() {
	if len(os.Args) < 2 {
		usage()
	}
	var err error
	code := 0
	switch os.Args[1] {
	case "check":
		if len(os.Args) < 3 {
			usage()
		}
		tier := envOr("VERIF_TIER", "quick")
		for i := 3; i < len(os.Args); i++ {
			if os.Args[i] == "--tier" && i+1 < len(os.Args) {
				tier = os.Args[i+1]
			}
		}
		code, err = runCheck(os.Args[2], tier, seed())
	case "replay":
		if len(os.Args) < 4 {
			usage()
		}
		code, err = runReplay(os.Args[2], os.Args[3])
	case "selftest":
		fast := len(os.Args) > 2 && os.Args[2] == "--fast"
		code, err = runSelftest(fast)
	case "dev":
		code, err = runDev(os.Args[2:])
	default:
		usage()
	}
	if err != nil {
		var inc *Inconclusive
		if errors.As(err, &inc) {
			fmt.Fprintln(os.Stderr, "INCONCLUSIVE:", err)
			os.Exit(2)
		}
		fmt.Fprintln(os.Stderr, "ERROR:", err)
		os.Exit(2)
	}
	os.Exit(code)
}
