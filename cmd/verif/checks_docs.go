package main

import (
	"bytes"
	"encoding/base64"
	"encoding/json"
	"fmt"
	"math/rand"
	"os"
	"path/filepath"
	"regexp"
	"sort"
	"strconv"
	"strings"
	"time"
)

// C14-C17: documents and matchers (DESIGN.md §6). Docs.tla is the oracle: TLC enumerates
// (document, matcher sequence) cases and prints what must come out; the harness concretises them
// as JSON / YAML, runs the real matchers and the real Match* entry points, and TLC judges.

func init() {
	register("C14", "exploration", "model-generated JSON presentations (whitespace, member order, three input forms, format options) of TLC-enumerated abstract documents and of a document corpus; stored once, every other presentation must pass; TLC validates the traces against the contract (value identity = canonical document computed by an independent reader)", checkC14)
	register("C15", "model_checking", "Docs.tla (Apply/ApplyAll) is the oracle: TLC enumerates (document, matcher sequence) cases; the real matchers are applied directly to the caller's bytes and TLC compares the projected output, the failures and the caller's buffer with the model (MC_DocsCheck)", checkC15)
	register("C16", "model_checking", "TLC checks MaskedIndependence on the abstract matcher semantics (MC_Docs) and emits cases; pairs of documents agreeing / differing outside the masked paths are stored and matched against each other through MatchJSON, MatchStandaloneJSON and MatchYAML; TLC validates outcomes (value identity = TLC's masked document)", checkC16)
	register("C17", "model_checking", "TLC enumerates mixes of satisfiable and failing matchers (MC_Docs: FailuresNamed) and the contract demands one failure naming all of them, no write, ordinal consumed; executed in create/update/CI modes for JSON, YAML and standalone JSON, traces validated by TLC", checkC17)
}

type absMatcher struct {
	M    string `json:"m"`
	Name string `json:"name"`
	P    string `json:"p"`
	PH   string `json:"ph"`
	EOMP bool   `json:"eomp"`
	T    string `json:"t"`
	Err  bool   `json:"err"`
}

type docCase struct {
	D    map[string]string `json:"d"`
	MS   []absMatcher      `json:"ms"`
	Out  map[string]string `json:"out"`
	Errs [][]string        `json:"errs"`
}

var docPaths = []string{"a", "b", "n.x", "n.xy", "l.0", "l.1"}

// ---------------------------------------------------------------- concretisation

func jsonOfDoc(d map[string]string, style int) string {
	b := ""
	if d["b"] != "absent" {
		b = d["b"]
	}
	switch style {
	case 1: // insignificant whitespace
		s := "{\n  \"a\" :  " + d["a"] + " ,\n"
		if b != "" {
			s += "\t\"b\":" + b + ",\n"
		}
		return s + "  \"n\": { \"x\": " + d["n.x"] + ",\n \"xy\":" + d["n.xy"] + " },\r\n  \"l\": [ " + d["l.0"] + " ,\n" + d["l.1"] + " ]\n}\n"
	case 2: // member order
		s := `{"l":[` + d["l.0"] + `,` + d["l.1"] + `],"n":{"xy":` + d["n.xy"] + `,"x":` + d["n.x"] + `},`
		if b != "" {
			s += `"b":` + b + `,`
		}
		return s + `"a":` + d["a"] + `}`
	}
	s := `{"a":` + d["a"] + `,`
	if b != "" {
		s += `"b":` + b + `,`
	}
	return s + `"n":{"x":` + d["n.x"] + `,"xy":` + d["n.xy"] + `},"l":[` + d["l.0"] + `,` + d["l.1"] + `]}`
}

func yamlScalar(tok string) string {
	if strings.HasPrefix(tok, "\"") {
		var s string
		json.Unmarshal([]byte(tok), &s)
		return s
	}
	return tok
}

func yamlOfDoc(d map[string]string) string {
	s := "a: " + yamlScalar(d["a"]) + "\n"
	if d["b"] != "absent" {
		s += "b: " + yamlScalar(d["b"]) + "\n"
	}
	s += "n:\n  x: " + yamlScalar(d["n.x"]) + "\n  xy: " + yamlScalar(d["n.xy"]) + "\n"
	s += "l:\n  - " + yamlScalar(d["l.0"]) + "\n  - " + yamlScalar(d["l.1"]) + "\n"
	return s
}

func yamlPath(p string) string {
	if strings.HasPrefix(p, "l.") {
		return "$.l[" + p[2:] + "]"
	}
	return "$." + p
}

func scriptMatchers(ms []absMatcher, yaml bool) []*Matcher {
	return scriptMatchersM(ms, yaml, nil)
}

// scriptMatchersM: when `present` is given, two consecutive Any matchers with the same placeholder
// whose paths both exist become ONE Any(p1, p2) call (equivalent for the model; exercises the
// multi-path code of the real matcher).
func scriptMatchersM(ms []absMatcher, yaml bool, present map[string]string) []*Matcher {
	var out []*Matcher
	for i := 0; i < len(ms); i++ {
		m := ms[i]
		if present != nil && i+1 < len(ms) && m.M == "any" && ms[i+1].M == "any" && m.PH == ms[i+1].PH && m.EOMP == ms[i+1].EOMP &&
			m.P != ms[i+1].P && (!m.EOMP || (present[m.P] != "" && present[m.P] != "absent" && present[ms[i+1].P] != "" && present[ms[i+1].P] != "absent")) {
			p1, p2 := m.P, ms[i+1].P
			if yaml {
				p1, p2 = yamlPath(p1), yamlPath(p2)
			}
			out = append(out, &Matcher{M: "any", Paths: []string{p1, p2}, EOMP: bp(m.EOMP), HasPH: true, Placeholder: json.RawMessage(m.PH)})
			i++
			continue
		}
		out = append(out, scriptMatcher1(m, yaml))
	}
	return out
}

func scriptMatcher1(m absMatcher, yaml bool) *Matcher {
	{
		p := m.P
		if yaml {
			p = yamlPath(p)
		}
		sm := &Matcher{M: m.M, Paths: []string{p}, EOMP: bp(m.EOMP)}
		switch m.M {
		case "any":
			sm.HasPH = true
			sm.Placeholder = json.RawMessage(m.PH)
		case "type":
			sm.T = m.T
			if yaml && m.T == "float64" {
				sm.T = "uint64"
			}
		case "custom":
			sm.Ret = json.RawMessage(m.PH)
			if m.Err {
				sm.Err = "custom callback refused the value"
			}
		}
		return sm
	}
}

func expectFails(c *docCase, yaml bool) [][2]string {
	var out [][2]string
	for _, e := range c.Errs {
		p := e[1]
		if yaml {
			p = yamlPath(p)
		}
		out = append(out, [2]string{e[0], p})
	}
	return out
}

func docIdentity(c *docCase, fam string) string {
	keys := make([]string, 0, len(c.Out))
	for k := range c.Out {
		keys = append(keys, k)
	}
	sort.Strings(keys)
	var b strings.Builder
	for _, k := range keys {
		b.WriteString(k + "=" + c.Out[k] + ";")
	}
	return fam + ":" + shortHash([]byte(b.String()))
}

// ---------------------------------------------------------------- projection of real outputs

// absOfJSON projects a JSON text of the known shape to the abstract document
func absOfJSON(text string) (map[string]string, bool) {
	n, err := parseJSONRaw(text)
	if err != nil || n.kind != 'o' {
		return nil, false
	}
	out := map[string]string{"b": "absent"}
	for i, k := range n.keys {
		v := n.elems[i]
		switch k {
		case `"a"`, `"b"`:
			out[strings.Trim(k, `"`)] = leafTok(v)
		case `"n"`:
			if v.kind != 'o' {
				return nil, false
			}
			for j, kk := range v.keys {
				if kk != `"x"` && kk != `"xy"` {
					return nil, false
				}
				out["n."+strings.Trim(kk, `"`)] = leafTok(v.elems[j])
			}
		case `"l"`:
			if v.kind != 'a' || len(v.elems) != 2 {
				return nil, false
			}
			out["l.0"], out["l.1"] = leafTok(v.elems[0]), leafTok(v.elems[1])
		default:
			return nil, false
		}
	}
	for _, p := range docPaths {
		if _, ok := out[p]; !ok {
			return nil, false
		}
	}
	return out, true
}

func jsonQuote(s string) string {
	var b bytes.Buffer
	enc := json.NewEncoder(&b)
	enc.SetEscapeHTML(false)
	enc.Encode(s)
	return strings.TrimSuffix(b.String(), "\n")
}

// leafTok: a leaf is a scalar (raw token) or a structured placeholder (its compact text)
func leafTok(n *jnode) string {
	if n.kind == 's' {
		return n.raw
	}
	var b strings.Builder
	n.canon(false, &b)
	return b.String()
}

var yamlNum = regexp.MustCompile(`^-?\d+(\.\d+)?$`)

func jsonTokOfYAML(s string) string {
	s = strings.TrimSpace(s)
	if len(s) >= 2 && (s[0] == '"' && s[len(s)-1] == '"') {
		var u string
		if json.Unmarshal([]byte(s), &u) == nil {
			return jsonQuote(u)
		}
	}
	if len(s) >= 2 && s[0] == '\'' && s[len(s)-1] == '\'' {
		return jsonQuote(strings.ReplaceAll(s[1:len(s)-1], "''", "'"))
	}
	if s == "true" || s == "false" || s == "null" || yamlNum.MatchString(s) {
		// a JSON number placeholder reaches the YAML encoder as float64: 12345 is written 12345.0
		return strings.TrimSuffix(s, ".0")
	}
	return jsonQuote(s)
}

// absOfYAML: line reader for the block-style shape the harness generates (and goccy re-emits)
func absOfYAML(text string) (map[string]string, bool) {
	out := map[string]string{"b": "absent"}
	sec := ""
	li := 0
	pending := "" // a key whose value is a nested mapping on the following line(s)
	pendInd := 0
	for _, line := range strings.Split(text, "\n") {
		if strings.TrimSpace(line) == "" {
			continue
		}
		ind := len(line) - len(strings.TrimLeft(line, " "))
		t := strings.TrimSpace(line)
		if pending != "" {
			if ind > pendInd && t == "k: v" {
				out[pending] = `{"k":"v"}`
				pending = ""
				continue
			}
			return nil, false
		}
		switch {
		case ind == 0 && (t == "a:" || t == "b:"):
			pending, pendInd, sec = t[:1], ind, ""
		case ind > 0 && sec == "n" && (t == "x:" || t == "xy:"):
			pending, pendInd = "n."+strings.TrimSuffix(t, ":"), ind
		case sec == "l" && t == "- k: v":
			if li > 1 {
				return nil, false
			}
			out[fmt.Sprintf("l.%d", li)] = `{"k":"v"}`
			li++
		case ind == 0 && (t == "n:" || t == "l:"):
			sec = t[:1]
		case ind == 0 && (strings.HasPrefix(t, "a: ") || strings.HasPrefix(t, "b: ")):
			out[t[:1]] = jsonTokOfYAML(t[3:])
			sec = ""
		case ind > 0 && sec == "n" && strings.HasPrefix(t, "x: "):
			out["n.x"] = jsonTokOfYAML(t[3:])
		case ind > 0 && sec == "n" && strings.HasPrefix(t, "xy: "):
			out["n.xy"] = jsonTokOfYAML(t[4:])
		case sec == "l" && strings.HasPrefix(t, "- "):
			if li > 1 {
				return nil, false
			}
			out[fmt.Sprintf("l.%d", li)] = jsonTokOfYAML(t[2:])
			li++
		default:
			return nil, false
		}
	}
	for _, p := range docPaths {
		if _, ok := out[p]; !ok {
			return nil, false
		}
	}
	return out, true
}

// ---------------------------------------------------------------- model cases

func (c *CheckCtx) docCases() ([]*docCase, error) {
	dir, err := specDir(c.Sc, c.Sc.Next("mc"))
	if err != nil {
		return nil, err
	}
	res, err := runTLC(dir, "MC_Docs_gen.tla", "MC_Docs_quick.cfg", c.Workers, 20*time.Minute)
	if err != nil {
		return nil, err
	}
	if res.Violation {
		return nil, inconclusive("MC_Docs violates %s in the specification itself", res.ViolatedBy)
	}
	var cases []*docCase
	for _, line := range res.Printed {
		s, err := strconv.Unquote(line)
		if err != nil {
			return nil, inconclusive("cannot unquote case: %v", err)
		}
		dc := &docCase{}
		if err := json.Unmarshal([]byte(strings.TrimPrefix(s, "@@")), dc); err != nil {
			return nil, inconclusive("cannot parse case: %v", err)
		}
		cases = append(cases, dc)
	}
	c.model("MC_Docs_quick.cfg", res, true, fmt.Sprintf("OnlyTargetsChange and FailuresNamed hold; %d (document, matcher sequence) cases emitted", len(cases)))
	if c.thorough() {
		dir2, err := specDir(c.Sc, c.Sc.Next("mc"))
		if err != nil {
			return nil, err
		}
		res2, err := runTLC(dir2, "MC_Docs_gen.tla", "MC_Docs.cfg", c.Workers, 30*time.Minute)
		if err != nil {
			return nil, err
		}
		if res2.Violation {
			return nil, inconclusive("MC_Docs violates %s in the specification itself", res2.ViolatedBy)
		}
		c.model("MC_Docs.cfg", res2, true, "MaskedIndependence holds for all pairs of documents")
		dir3, err := specDir(c.Sc, c.Sc.Next("mc"))
		if err != nil {
			return nil, err
		}
		res3, err := runTLC(dir3, "MC_Docs_gen.tla", "MC_Docs_thorough.cfg", c.Workers, 30*time.Minute)
		if err != nil {
			return nil, err
		}
		if res3.Violation {
			return nil, inconclusive("MC_Docs violates %s in the specification itself", res3.ViolatedBy)
		}
		c.model("MC_Docs_thorough.cfg", res3, true, "OnlyTargetsChange and FailuresNamed for every sequence of up to three matchers")
	}
	return cases, nil
}

func thin[T any](xs []T, limit int, seed int64) []T {
	if limit <= 0 || len(xs) <= limit {
		return xs
	}
	// pseudo-random selection (a fixed stride can alias with the enumeration order)
	r := rand.New(rand.NewSource(seed*2654435761 + int64(len(xs))))
	perm := r.Perm(len(xs))[:limit]
	sort.Ints(perm)
	out := make([]T, 0, limit)
	for _, i := range perm {
		out = append(out, xs[i])
	}
	return out
}

// ---------------------------------------------------------------- C15: direct application

func checkC15(c *CheckCtx) error {
	c.Rule = "(document, matcher sequence, format) cases: every case TLC emits within bounds (36 documents x sequences of up to 2 of 14 matchers incl. missing paths, wrong types, failing callbacks, placeholders shorter/longer/non-string) x {JSON compact, JSON spaced, JSON reordered, YAML}; non-trivial = distinct case with at least one matcher"
	c.Assumptions = []string{"documents have the fixed shape {a, b?, n:{x,y}, l:[_,_]} of Docs.tla; outputs are projected back by an independent JSON reader (raw scalars) and, for YAML, by a line reader of the block style the harness generates (unreadable outputs of failing sequences are not judged)", "the caller's bytes are compared before/after every single matcher application"}
	cases, err := c.docCases()
	if err != nil {
		return err
	}
	cases = thin(cases, c.pick(2500, 0), c.Seed)
	var jobs []*docJob
	for i, dc := range cases {
		jobs = append(jobs, &docJob{dc: dc, style: i % 3, text: jsonOfDoc(dc.D, i%3)})
		jobs = append(jobs, &docJob{dc: dc, yaml: true, text: yamlOfDoc(dc.D)})
		if len(dc.MS) > 0 {
			c.nontrivial(fmt.Sprintf("%v|%v", dc.D, dc.MS))
		}
	}
	if err := c.judgeDirect(jobs); err != nil {
		return err
	}
	// through the entry points: the caller's []byte must survive MatchJSON / MatchYAML
	return c.docsEntryPoints(cases, "C15")
}

type docJob struct {
	dc    *docCase
	yaml  bool
	style int
	text  string
}

// judgeDirect applies the real matchers directly to the documents and lets TLC compare with
// Docs!ApplyAll (MC_DocsCheck).
func (c *CheckCtx) judgeDirect(jobs []*docJob) error {
	d, err := c.driver()
	if err != nil {
		return err
	}
	// bulk: one history per chunk of jobs
	var scs []*Scenario
	const per = 200
	for a := 0; a < len(jobs); a += per {
		b := a + per
		if b > len(jobs) {
			b = len(jobs)
		}
		sc := &Scenario{ID: fmt.Sprintf("md%d", a/per), Configs: stdConfigs()}
		p := &Proc{Spec: ProcSpec{}}
		for _, j := range jobs[a:b] {
			api := "json"
			if j.yaml {
				api = "yaml"
			}
			p.Steps = append(p.Steps, &Step{Op: "mdirect", Name: "TestA", API: api, Val: bytesVal(j.text), Matchers: scriptMatchersM(j.dc.MS, j.yaml, j.dc.D)})
		}
		sc.Procs = append(sc.Procs, p)
		scs = append(scs, sc)
	}
	runs, err := runScenarios(c.Sc, d, scs, c.Workers)
	if err != nil {
		return err
	}
	var buf bytes.Buffer
	enc := json.NewEncoder(&buf)
	enc.SetEscapeHTML(false)
	k := 0
	unparsed := 0
	for _, r := range runs {
		for _, e := range r.Raw[0] {
			if e == nil || e.Ev != "mdirect" {
				continue
			}
			if k >= len(jobs) {
				return inconclusive("more mdirect events than jobs")
			}
			j := jobs[k]
			k++
			if e.Panic != "" {
				c.Violations = append(c.Violations, &Violation{Prop: "C15", Kind: "docs", What: fmt.Sprintf("matcher application panicked (%s) on %q with %v", e.Panic, j.text, j.dc.MS)})
				continue
			}
			outb, _ := base64.StdEncoding.DecodeString(e.Out)
			nb, _ := base64.StdEncoding.DecodeString(e.Buf)
			var names [][2]string
			json.Unmarshal(nb, &names)
			obserrs := []any{}
			for _, n := range names {
				p := n[1]
				if j.yaml { // back to the abstract path
					p = strings.TrimPrefix(p, "$.")
					p = strings.ReplaceAll(strings.ReplaceAll(p, "[", "."), "]", "")
				}
				obserrs = append(obserrs, []string{n[0], p})
			}
			var obs map[string]string
			var ok bool
			if j.yaml {
				obs, ok = absOfYAML(string(outb))
			} else {
				obs, ok = absOfJSON(string(outb))
			}
			if !ok {
				unparsed++
				obs = map[string]string{}
				for _, p := range docPaths {
					obs[p] = "?"
				}
			}
			ms := make([]any, len(j.dc.MS))
			for i := range j.dc.MS {
				ms[i] = j.dc.MS[i]
			}
			rec := map[string]any{"n": k, "yaml": j.yaml, "d": j.dc.D, "ms": ms, "obsd": obs, "parsed": ok, "obserrs": obserrs,
				"bufsame": e.Note != "caller buffer modified", "text": j.text, "out": string(outb)}
			if err := enc.Encode(rec); err != nil {
				return err
			}
		}
	}
	if k != len(jobs) {
		return inconclusive("%d mdirect events for %d jobs", k, len(jobs))
	}
	dir, err := specDir(c.Sc, c.Sc.Next("docs"))
	if err != nil {
		return err
	}
	if err := os.WriteFile(filepath.Join(dir, "docscases.ndjson"), buf.Bytes(), 0o644); err != nil {
		return err
	}
	res, err := runTLC(dir, "MC_DocsCheck.tla", "MC_DocsCheck.cfg", c.Workers, 30*time.Minute, "-continue")
	if err != nil {
		return err
	}
	c.model("MC_DocsCheck.cfg", res, false, fmt.Sprintf("%d real matcher applications judged against Docs!ApplyAll (%d outputs not projectable)", len(jobs), unparsed))
	c.Validated += len(jobs)
	c.Evaluations += len(jobs)
	c.sample(map[string]any{"document": jobs[len(jobs)/2].text, "matchers": jobs[len(jobs)/2].dc.MS, "contract_out": jobs[len(jobs)/2].dc.Out, "contract_failures": jobs[len(jobs)/2].dc.Errs})
	if res.Violation {
		re := regexp.MustCompile(`(?s)Invariant (\w+) is violated.*?i = (\d+)`)
		seen := map[string]int{}
		for _, m := range re.FindAllStringSubmatch(res.Output, -1) {
			idx, _ := strconv.Atoi(m[2])
			j := jobs[idx-1]
			seen[m[1]]++
			if seen[m[1]] > 3 {
				continue
			}
			what := fmt.Sprintf("[%s] input=%q matchers=%v model_out=%v model_failures=%v", m[1], clip(j.text), j.dc.MS, j.dc.Out, j.dc.Errs)
			if id := docsKnown("C15", m[1], j.dc, j.yaml); id != "" {
				if _, ok := c.KnownHit[id]; !ok {
					c.KnownHit[id] = what
				}
				continue
			}
			extra, _ := json.Marshal(map[string]any{"text": j.text, "yaml": j.yaml, "case": j.dc, "invariant": m[1]})
			c.Violations = append(c.Violations, &Violation{Prop: "C15", What: what, Kind: "docs", Extra: extra})
		}
		if len(seen) == 0 {
			return inconclusive("MC_DocsCheck reported a violation that could not be located:\n%s", tail([]byte(res.Output), 2000))
		}
	}
	return nil
}

// docsKnown: signatures of known findings for directly applied matchers
func docsKnown(prop, inv string, dc *docCase, yaml bool) string {
	if inv == "P_Buf" && !yaml && listed(prop, "K9") {
		return "K9" // the exported JSON methods patch their argument in place (sjson ReplaceInPlace)
	}
	return ""
}

// ---------------------------------------------------------------- scenarios through Match*

func docStep(dc *docCase, api string, cfg string, form string, style int) *Step {
	yaml := api == "yaml"
	var v *Val
	text := jsonOfDoc(dc.D, style)
	if yaml {
		text = yamlOfDoc(dc.D)
	}
	switch form {
	case "bytes":
		v = bytesVal(text)
	case "gojson":
		v = &Val{K: "gojson", B64: base64.StdEncoding.EncodeToString([]byte(text))}
	case "rawmsg":
		v = &Val{K: "rawmsg", B64: base64.StdEncoding.EncodeToString([]byte(text))}
	default:
		v = strVal(text)
	}
	st := &Step{Op: "match", Name: "TestA", API: api, Cfg: cfg, Val: v, Matchers: scriptMatchersM(dc.MS, yaml, dc.D)}
	x := &Expect{}
	if len(dc.Errs) > 0 {
		x.MFail = expectFails(dc, yaml)
	} else {
		fam := "jd"
		if yaml {
			fam = "yd"
		}
		x.VID = docIdentity(dc, fam)
		x.Inj = true
		if !yaml && dc.Out != nil {
			x.Doc = jsonOfDoc(dc.Out, 0)
		}
	}
	st.X = x
	return st
}

// pathDependence: ONE matcher with several paths is applied left to right on the evolving
// document: replacing an earlier path changes whether a later one exists.
func pathDependence() []*Scenario {
	type hc struct {
		doc    string
		paths  []string
		ph     string
		eomp   bool
		fail   [][2]string
		stored string
	}
	cases := []hc{
		{`{"user":{"name":"x"},"b":1}`, []string{"user", "user.name"}, `"<Any value>"`, true, [][2]string{{"Any", "user.name"}}, ""},
		{`{"items":[1,2,3],"b":1}`, []string{"items", "items.2"}, `"<Any value>"`, true, [][2]string{{"Any", "items.2"}}, ""},
		{`{"user":{"name":"x"},"b":1}`, []string{"user.name", "user"}, `"<Any value>"`, true, nil, `{"user":"<Any value>","b":1}`},
		{`{"a":1,"b":2}`, []string{"a", "a.k"}, `{"k":"v"}`, false, nil, `{"a":{"k":{"k":"v"}},"b":2}`},
		{`{"a":1,"b":2}`, []string{"a.k", "a"}, `{"k":"v"}`, false, nil, `{"a":{"k":"v"},"b":2}`},
		{`{"user":{"name":"x"},"b":1}`, []string{"user", "user.name"}, `"<Any value>"`, false, nil, `{"user":"<Any value>","b":1}`},
		// member names that look like path syntax of another notation are just names
		{`{"$":{"id":1},"id":2}`, []string{"$.id"}, `"<Any value>"`, true, nil, `{"$":{"id":"<Any value>"},"id":2}`},
		{`{"$":{"id":1},"id":2}`, []string{"id"}, `"<Any value>"`, true, nil, `{"$":{"id":1},"id":"<Any value>"}`},
		{`{"items[0]":{"id":1},"items":[{"id":2}]}`, []string{"items.0.id"}, `"<Any value>"`, true, nil, `{"items[0]":{"id":1},"items":[{"id":"<Any value>"}]}`},
		{`{"a":{"b":1},"a/b":2,"a b":3}`, []string{"a.b"}, `"<Any value>"`, true, nil, `{"a":{"b":"<Any value>"},"a/b":2,"a b":3}`},
	}
	var scs []*Scenario
	for i, h := range cases {
		for _, api := range []string{"json", "sjson"} {
			sc := &Scenario{ID: fmt.Sprintf("pd%d%s", i, api), Configs: stdConfigs(), Program: []string{"TestA"}}
			x := &Expect{MFail: h.fail}
			if h.fail == nil {
				x = &Expect{VID: fmt.Sprintf("pd:%d", i), Inj: true, Doc: h.stored}
			}
			m := &Matcher{M: "any", Paths: h.paths, HasPH: true, Placeholder: json.RawMessage(h.ph), EOMP: bp(h.eomp)}
			sc.Procs = append(sc.Procs, &Proc{Spec: procSpec("default"), Steps: []*Step{{Op: "begin", Name: "TestA"},
				{Op: "match", Name: "TestA", API: api, Cfg: "c", Val: bytesVal(h.doc), Matchers: []*Matcher{m}, X: x}, {Op: "end", Name: "TestA"}}})
			sc.Note = fmt.Sprintf("Any(%v).Placeholder(%s).ErrOnMissingPath(%v) on %s via %s", h.paths, h.ph, h.eomp, h.doc, api)
			sc.Tags = []string{"also:C15"}
			scs = append(scs, sc)
		}
	}
	return scs
}

// streamAndInPlace: YAML streams and callbacks that edit in place: every document of a stream is
// covered by a path; a Custom callback that changes the received map and hands it back has changed
// the value.
func streamAndInPlace() []*Scenario {
	var scs []*Scenario
	// YAML streams and callbacks that edit in place: every document of a stream is covered by a path;
	// a Custom callback that changes the received map and hands it back has changed the value
	for i, hc := range []struct {
		api, doc string
		ms       []*Matcher
		text     string
		docjson  string
	}{
		{"yaml", "ts: 1\nid: a\n---\nts: 2\nid: b\n", []*Matcher{{M: "any", Paths: []string{"$.ts"}}}, "ts: <Any value>\nid: a\n---\nts: <Any value>\nid: b\n", ""},
		{"yaml", "ts: 1\nid: a\n---\nid: b\nts: 2\n---\nts: 3\n", []*Matcher{{M: "any", Paths: []string{"$.ts"}}}, "ts: <Any value>\nid: a\n---\nid: b\nts: <Any value>\n---\nts: <Any value>\n", ""},
		{"json", `{"user":{"name":"n","secret":"s3cr3t"},"b":1}`, []*Matcher{{M: "custom", Paths: []string{"user"}, Ret: json.RawMessage(`"@mask:secret"`)}}, "", `{"user":{"name":"n","secret":"***"},"b":1}`},
		{"sjson", `{"user":{"name":"n","secret":"s3cr3t"},"b":1}`, []*Matcher{{M: "custom", Paths: []string{"user"}, Ret: json.RawMessage(`"@mask:secret"`)}}, "", `{"user":{"name":"n","secret":"***"},"b":1}`},
		{"yaml", "user:\n  name: n\n  secret: s3cr3t\nb: 1\n", []*Matcher{{M: "custom", Paths: []string{"$.user"}, Ret: json.RawMessage(`"@mask:secret"`)}}, "user:\n  name: \"n\"\n  secret: \"***\"\nb: 1\n", ""},
	} {
		sc := &Scenario{ID: fmt.Sprintf("st%d", i), Configs: stdConfigs(), Program: []string{"TestA"}, Tags: []string{"also:C15", "also:C16"}}
		x := &Expect{VID: fmt.Sprintf("st:%d", i), Inj: true, Doc: hc.docjson}
		if hc.text != "" {
			t := hc.text
			x = &Expect{Text: &t}
		}
		sc.Procs = append(sc.Procs, &Proc{Spec: procSpec("default"), Steps: []*Step{{Op: "begin", Name: "TestA"},
			{Op: "match", Name: "TestA", API: hc.api, Cfg: "c", Val: bytesVal(hc.doc), Matchers: hc.ms, X: x}, {Op: "end", Name: "TestA"}}})
		sc.Note = fmt.Sprintf("%s on %q with %d matcher(s): stream / in-place callback", hc.api, hc.doc, len(hc.ms))
		scs = append(scs, sc)
	}
	// K9 (known finding, DESIGN.md 14.4): a string placeholder that reads as YAML structure
	// ("- item", "? x", "-") is written unquoted by the YAML encoder go-snaps uses, so the value at
	// the path becomes a sequence / mapping instead of that string. The expectation is the string.
	for i, ph := range []string{"- item", "? x", "-"} {
		sc := &Scenario{ID: fmt.Sprintf("k9_%d", i), Configs: stdConfigs(), Program: []string{"TestA"}, Tags: []string{"also:C15", "sig:K9"}}
		q, _ := json.Marshal(ph)
		t := "id: " + string(q) + "\nname: x\n"
		sc.Procs = append(sc.Procs, &Proc{Spec: procSpec("default"), Steps: []*Step{{Op: "begin", Name: "TestA"},
			{Op: "match", Name: "TestA", API: "yaml", Cfg: "c", Val: bytesVal("id: 5\nname: x\n"),
				Matchers: []*Matcher{{M: "any", Paths: []string{"$.id"}, HasPH: true, Placeholder: json.RawMessage(q)}}, X: &Expect{Text: &t}}, {Op: "end", Name: "TestA"}}})
		sc.Note = fmt.Sprintf("K9 reproduction: MatchYAML with Any($.id).Placeholder(%q): the stored value at $.id must be that string", ph)
		scs = append(scs, sc)
	}
	return scs
}

// docsEntryPoints: every case through MatchJSON / MatchStandaloneJSON / MatchYAML with []byte
// input (the event carries the caller's buffer afterwards), then a valid plain call that must
// keep its slot.
func (c *CheckCtx) docsEntryPoints(cases []*docCase, prop string) error {
	cases = thin(cases, c.pick(600, 6000), c.Seed+1)
	var scs []*Scenario
	for i, dc := range cases {
		api := []string{"json", "sjson", "yaml"}[i%3]
		sc := &Scenario{ID: fmt.Sprintf("ep%d", i), Configs: stdConfigs(), Program: []string{"TestA"}}
		mode := []string{"default", "update", "ci"}[(i/3)%3]
		form := "bytes"
		if api != "yaml" && i%4 == 3 {
			form = "rawmsg"
		}
		steps := []*Step{{Op: "begin", Name: "TestA"}, docStep(dc, api, "c", form, i%3), docStep(&docCase{D: dc.D, Out: dc.D}, api, "c", "str", 0), {Op: "end", Name: "TestA"}}
		sc.Procs = append(sc.Procs, &Proc{Spec: procSpec(mode), Steps: steps})
		sc.Note = fmt.Sprintf("entry point %s mode=%s doc=%v matchers=%d failing=%d", api, mode, dc.D, len(dc.MS), len(dc.Errs))
		scs = append(scs, sc)
		c.nontrivial(sc.Note)
	}
	for _, sc := range pathDependence() {
		scs = append(scs, sc)
		c.nontrivial(sc.Note)
	}
	for _, sc := range streamAndInPlace() {
		if hasTag(sc, "sig:K9") && prop != "C15" {
			continue // K9 is a finding about what a matcher writes (C15)
		}
		scs = append(scs, sc)
		c.nontrivial(sc.Note)
	}
	// caller-owned []byte documents with CRLF line endings, a byte order mark, tabs: whatever the
	// library does to bring input into shape, it does to its own copy
	for i, doc := range []string{"a: 1\r\nb: two\r\nl:\r\n  - x\r\n", "\xef\xbb\xbfa: 1\nb: 2\n", "{\r\n \"a\": 1,\r\n \"b\": [1, 2]\r\n}\r\n", "\xef\xbb\xbf{\"a\":1}"} {
		api := "yaml"
		if strings.Contains(doc, "{") {
			api = "json"
		}
		apivs := []string{"yaml"}
		if api == "json" {
			apivs = []string{"json", "sjson"}
		}
		for _, apiv := range apivs {
			sc := &Scenario{ID: fmt.Sprintf("cb%d%s", i, apiv), Configs: stdConfigs(), Program: []string{"TestA"}, Tags: []string{"also:C15"}}
			st := &Step{Op: "match", Name: "TestA", API: apiv, Cfg: "c", Val: bytesVal(doc)}
			if strings.HasPrefix(doc, "\xef\xbb\xbf{") {
				st.X = &Expect{Invalid: true} // a BOM is not JSON
			}
			sc.Procs = append(sc.Procs, &Proc{Spec: procSpec("default"), Steps: []*Step{{Op: "begin", Name: "TestA"}, st, {Op: "end", Name: "TestA"}}})
			sc.Note = fmt.Sprintf("caller-owned []byte input %q via %s: the buffer is the caller's afterwards", doc, apiv)
			scs = append(scs, sc)
			c.nontrivial(sc.Note)
		}
	}
	return c.runSeq(scs)
}

func checkC17(c *CheckCtx) error {
	c.Rule = "(document, mix of satisfiable and failing matchers) cases emitted by TLC x {JSON, standalone JSON, YAML} x modes {create allowed, update enabled with an existing entry, CI}; each failing call is followed by a valid call of the same test; non-trivial = distinct case with at least one failing matcher"
	c.Assumptions = []string{"failures are recognised in the error text by match.<Name>(\"<path>\")"}
	cases, err := c.docCases()
	if err != nil {
		return err
	}
	var failing, passing []*docCase
	for _, dc := range cases {
		if len(dc.Errs) > 0 {
			failing = append(failing, dc)
		} else if len(dc.MS) > 0 {
			passing = append(passing, dc)
		}
	}
	failing = thin(failing, c.pick(700, 0), c.Seed)
	var scs []*Scenario
	for i, dc := range failing {
		api := []string{"json", "sjson", "yaml"}[i%3]
		sc := &Scenario{ID: fmt.Sprintf("mf%d", i), Configs: stdConfigs(), Program: []string{"TestA"}}
		// record a first valid version (no matchers), then the failing call in the given mode
		plain := &docCase{D: dc.D, Out: dc.D}
		second := &docCase{D: map[string]string{"a": `"second call"`, "b": "absent", "n.x": "1", "n.xy": `"s"`, "l.0": "1", "l.1": "true"}}
		second.Out = second.D
		rec := []*Step{{Op: "begin", Name: "TestA"}, docStep(plain, api, "c", "str", 0), docStep(second, api, "c", "str", 0), {Op: "end", Name: "TestA"}}
		mode := []string{"default", "update", "ci", "clean"}[(i/3)%4]
		if i%5 != 0 {
			sc.Procs = append(sc.Procs, &Proc{Spec: procSpec("default"), Steps: rec})
		}
		// the document changed, so that an update would be due if the matchers did not fail
		changed := &docCase{D: map[string]string{}, MS: dc.MS, Errs: dc.Errs, Out: dc.Out}
		for k, v := range dc.D {
			changed.D[k] = v
		}
		changed.D["n.xy"] = `"changed"`
		fail := []*Step{{Op: "begin", Name: "TestA"}, docStep(changed, api, "c", []string{"str", "bytes"}[i%2], i%3),
			docStep(second, api, "c", "str", 0), {Op: "end", Name: "TestA"}}
		sc.Procs = append(sc.Procs, &Proc{Spec: procSpec(mode), Steps: fail})
		sc.Note = fmt.Sprintf("failing matchers %v via %s in mode %s", dc.Errs, api, mode)
		scs = append(scs, sc)
		c.nontrivial(sc.Note)
	}
	// Type matchers on containers: an array is not a map and an object is not a slice
	for i, hc := range []struct {
		t, path string
		fail    bool
	}{{"map", "items", true}, {"slice", "obj", true}, {"map", "obj", false}, {"slice", "items", false}} {
		for _, api := range []string{"json", "sjson"} {
			sc := &Scenario{ID: fmt.Sprintf("ct%d%s", i, api), Configs: stdConfigs(), Program: []string{"TestA"}}
			x := &Expect{VID: fmt.Sprintf("ct:%s:%s", hc.t, hc.path), Inj: true}
			if hc.fail {
				x = &Expect{MFail: [][2]string{{"Type", hc.path}}}
			}
			sc.Procs = append(sc.Procs, &Proc{Spec: procSpec("default"), Steps: []*Step{{Op: "begin", Name: "TestA"},
				{Op: "match", Name: "TestA", API: api, Cfg: "c", Val: strVal(`{"items":[1,2],"obj":{"a":1}}`), Matchers: []*Matcher{{M: "type", T: hc.t, Paths: []string{hc.path}}}, X: x},
				{Op: "match", Name: "TestA", API: api, Cfg: "c", Val: strVal(`{"after":true}`)}, {Op: "end", Name: "TestA"}}})
			sc.Note = fmt.Sprintf("Type[%s](%q) on {items: array, obj: object} via %s, must fail=%v", hc.t, hc.path, api, hc.fail)
			scs = append(scs, sc)
			c.nontrivial(sc.Note)
		}
	}
	// YAML numbers: a whole number decodes as an integer type, so Type[float64] does not accept it
	// (and Type[uint64] does not accept a fraction); each input form
	for i, hc := range []struct {
		t, path string
		fail    bool
	}{{"float64", "$.price", true}, {"float64", "$.ratio", false}, {"uint64", "$.price", false}, {"uint64", "$.ratio", true}, {"int", "$.price", true}} {
		for k, v := range []*Val{strVal("price: 10\nratio: 10.5\n"), bytesVal("price: 10\nratio: 10.5\n")} {
			sc := &Scenario{ID: fmt.Sprintf("yt%d_%d", i, k), Configs: stdConfigs(), Program: []string{"TestA"}}
			x := &Expect{VID: fmt.Sprintf("yt:%s:%s", hc.t, hc.path), Inj: true}
			if hc.fail {
				x = &Expect{MFail: [][2]string{{"Type", hc.path}}}
			}
			sc.Procs = append(sc.Procs, &Proc{Spec: procSpec("default"), Steps: []*Step{{Op: "begin", Name: "TestA"},
				{Op: "match", Name: "TestA", API: "yaml", Cfg: "c", Val: v, Matchers: []*Matcher{{M: "type", T: hc.t, Paths: []string{hc.path}}}, X: x},
				{Op: "match", Name: "TestA", API: "yaml", Cfg: "c", Val: strVal("after: true\n")}, {Op: "end", Name: "TestA"}}})
			sc.Note = fmt.Sprintf("Type[%s](%q) on {price: 10, ratio: 10.5} via yaml, must fail=%v", hc.t, hc.path, hc.fail)
			scs = append(scs, sc)
			c.nontrivial(sc.Note)
		}
	}
	// many failures in one call: every one of them is named (12 and 25 missing paths; one matcher with
	// many paths and many matchers with one path each)
	for i, n := range []int{12, 25} {
		for _, api := range []string{"json", "sjson", "yaml"} {
			for _, split := range []bool{false, true} {
				var paths []string
				var fails [][2]string
				for k := 0; k < n; k++ {
					p := fmt.Sprintf("missing.path%02d", k)
					if api == "yaml" {
						p = "$." + p
					}
					paths = append(paths, p)
					fails = append(fails, [2]string{"Any", p})
				}
				ms := []*Matcher{{M: "any", Paths: paths}}
				if split {
					ms = nil
					for _, p := range paths {
						ms = append(ms, &Matcher{M: "any", Paths: []string{p}})
					}
				}
				doc := `{"a":1,"after":false}`
				if api == "yaml" {
					doc = "a: 1\nafter: false\n"
				}
				sc := &Scenario{ID: fmt.Sprintf("mm%d%s%v", i, api, split), Configs: stdConfigs(), Program: []string{"TestA"}}
				sc.Procs = append(sc.Procs, &Proc{Spec: procSpec("default"), Steps: []*Step{{Op: "begin", Name: "TestA"},
					{Op: "match", Name: "TestA", API: api, Cfg: "c", Val: strVal(doc), Matchers: ms, X: &Expect{MFail: fails}},
					{Op: "match", Name: "TestA", API: api, Cfg: "c", Val: strVal(doc)}, {Op: "end", Name: "TestA"}}})
				sc.Note = fmt.Sprintf("%d failing paths in one %s call (one matcher per path: %v)", n, api, split)
				scs = append(scs, sc)
				c.nontrivial(sc.Note)
			}
		}
	}
	c.sample(map[string]any{"source": "MC_Docs case", "document": failing[0].D, "matchers": failing[0].MS, "must_be_named": failing[0].Errs})
	if err := c.runSeq(scs); err != nil {
		return err
	}
	return c.docsEntryPoints(passing, "C17")
}

func checkC16(c *CheckCtx) error {
	c.Rule = "(document d1, document d2, matcher sequence) triples from TLC's cases: d1 is stored, d2 matched against it (both directions), for MatchJSON, MatchStandaloneJSON and MatchYAML; the contract expects a pass iff TLC's masked documents are equal; non-trivial = distinct triple"
	c.Assumptions = []string{"documents of the fixed shape of Docs.tla; both documents satisfy the matchers"}
	cases, err := c.docCases()
	if err != nil {
		return err
	}
	groups := map[string][]*docCase{}
	var keys []string
	for _, dc := range cases {
		if len(dc.Errs) > 0 || len(dc.MS) == 0 {
			continue
		}
		b, _ := json.Marshal(dc.MS)
		k := string(b)
		if _, ok := groups[k]; !ok {
			keys = append(keys, k)
		}
		groups[k] = append(groups[k], dc)
	}
	sort.Strings(keys)
	type triple struct {
		k    string
		i, j int
	}
	// per matcher sequence: pairs that differ ONLY at masked paths (must pass against each other)
	// and pairs that differ at exactly one unmasked path (must not); every sequence gets its share
	var triples []triple
	per := c.pick(1200, 20000)/(2*len(keys)) + 1
	for gi, k := range keys {
		g := groups[k]
		masked := map[string]bool{}
		for _, m := range g[0].MS {
			masked[m.P] = true
		}
		var inside, outside []triple
		for i := 0; i < len(g); i++ {
			for j := 0; j < len(g); j++ {
				if i == j {
					continue
				}
				in, out := 0, 0
				for _, p := range docPaths {
					if g[i].D[p] != g[j].D[p] {
						if masked[p] {
							in++
						} else {
							out++
						}
					}
				}
				if in > 0 && out == 0 {
					inside = append(inside, triple{k, i, j})
				}
				if in == 0 && out == 1 {
					outside = append(outside, triple{k, i, j})
				}
			}
		}
		triples = append(triples, thin(inside, per, c.Seed+int64(gi))...)
		triples = append(triples, thin(outside, per, c.Seed+int64(gi)+7)...)
	}
	var scs []*Scenario
	for n, tr := range triples {
		g := groups[tr.k]
		i, j, k := tr.i, tr.j, tr.k
		api := []string{"json", "sjson", "yaml"}[n%3]
		sc := &Scenario{ID: fmt.Sprintf("mk%d", n), Configs: stdConfigs(), Program: []string{"TestA"}}
		mk := func(dc *docCase, form string, style int) []*Step {
			return []*Step{{Op: "begin", Name: "TestA"}, docStep(dc, api, "c", form, style), {Op: "end", Name: "TestA"}}
		}
		sc.Procs = append(sc.Procs, &Proc{Spec: procSpec("default"), Steps: mk(g[i], "str", 0)})
		sc.Procs = append(sc.Procs, &Proc{Spec: procSpec([]string{"default", "ci", "color"}[n%3]), Steps: mk(g[j], []string{"str", "bytes"}[n%2], n%3)})
		same := docIdentity(g[i], "x") == docIdentity(g[j], "x")
		sc.Note = fmt.Sprintf("store d1, match d2 via %s; masked documents equal=%v; matchers=%s", api, same, k)
		scs = append(scs, sc)
		c.nontrivial(fmt.Sprintf("%v|%v|%s", g[i].D, g[j].D, k))
	}
	c.sample(map[string]any{"source": "MC_Docs cases", "note": scs[0].Note})
	scs = append(scs, jsonNearMiss(c)...)
	scs = append(scs, sharedMatcherScenarios(c)...)
	for _, h := range hugeDoc() {
		h.Tags = append(h.Tags, "also:C16")
		scs = append(scs, h)
	}
	for _, sc := range streamAndInPlace() {
		if hasTag(sc, "sig:K9") {
			continue
		}
		scs = append(scs, sc) // what a path covers in a stream decides what is masked (tagged also:C16)
		c.nontrivial(sc.Note)
	}
	return c.runSeq(scs)
}

// sharedMatcherScenarios: ONE matcher object (a package-level or table-test matcher) serves
// several calls; a document lacking one of its paths must not change what it masks later.
func sharedMatcherScenarios(c *CheckCtx) []*Scenario {
	var scs []*Scenario
	ph := `"<Any value>"`
	ms := []absMatcher{{M: "any", Name: "Any", P: "b", PH: ph, EOMP: false}, {M: "any", Name: "Any", P: "a", PH: ph, EOMP: false}}
	mk := func(b string) *docCase {
		d := map[string]string{"a": `"secret"`, "b": b, "n.x": "1", "n.xy": `"s"`, "l.0": "1", "l.1": "true"}
		out := map[string]string{}
		for k, v := range d {
			out[k] = v
		}
		out["a"] = ph
		if b != "absent" {
			out["b"] = ph
		}
		return &docCase{D: d, MS: ms, Out: out}
	}
	n := 0
	for _, api := range []string{"json", "sjson"} {
		for _, order := range [][2]string{{"absent", "true"}, {"true", "absent"}} {
			n++
			sc := &Scenario{ID: fmt.Sprintf("sm%d", n), Configs: stdConfigs(), Program: []string{"TestA", "TestB"}}
			steps := func(shared string) []*Step {
				var out []*Step
				for i, t := range []string{"TestA", "TestB"} {
					st := docStep(mk(order[i]), api, "c", "str", 0)
					st.Name = t
					for _, m := range st.Matchers {
						m.Shared = shared
					}
					out = append(out, &Step{Op: "begin", Name: t}, st, &Step{Op: "end", Name: t})
				}
				return out
			}
			sc.Procs = append(sc.Procs, &Proc{Spec: procSpec("default"), Steps: steps(fmt.Sprintf("shared%d", n))})
			sc.Procs = append(sc.Procs, &Proc{Spec: procSpec("ci"), Steps: steps("")})
			// a third document that differs from TestB's only at a masked path must still pass
			other := mk(order[1])
			other.D["a"] = `"another secret"`
			st := docStep(other, api, "c", "str", 0)
			st.Name = "TestB"
			sc.Procs = append(sc.Procs, &Proc{Spec: procSpec("ci"), Steps: []*Step{{Op: "begin", Name: "TestB"}, st, {Op: "end", Name: "TestB"}}})
			sc.Note = fmt.Sprintf("one shared Any(b, a).ErrOnMissingPath(false) object serves two calls via %s; first document has b=%s", api, order[0])
			scs = append(scs, sc)
			c.nontrivial(sc.Note)
		}
	}
	return scs
}

// jsonNearMiss: documents that differ in as little as possible at a field no matcher covers; the
// second must never pass against the first (C16 "unmasked fields always do", C14, C02)
func jsonNearMiss(c *CheckCtx) []*Scenario {
	pairs := [][2]string{
		{`{"id":1541815603606036481}`, `{"id":1541815603606036482}`}, {`9007199254740993`, `9007199254740992`},
		{`{"a":1.0}`, `{"a":1}`}, {`{"a":1e3}`, `{"a":1000}`}, {`{"a":"x"}`, `{"a":"x "}`}, {`[1,2]`, `[2,1]`}, {`{"a":null}`, `{}`},
		{`{"a":"\u0041"}`, `{"a":"A"}`}, {`{"a":0}`, `{"a":-0}`}, {`{"a":[]}`, `{"a":{}}`}, {`{"a":"1"}`, `{"a":1}`},
		{`{"t":true,"big":123456789012345678901234567890}`, `{"t":true,"big":123456789012345678901234567891}`},
		{`{"f":0.1}`, `{"f":0.10000000000000001}`},
	}
	var scs []*Scenario
	n := 0
	for _, p := range pairs {
		for _, api := range []string{"json", "sjson"} {
			for dir := 0; dir < 2; dir++ {
				n++
				st, rc := p[dir], p[1-dir]
				sc := &Scenario{ID: fmt.Sprintf("nm%d", n), Configs: stdConfigs(), Program: []string{"TestA"}}
				mk := func(v *Val) []*Step {
					return []*Step{{Op: "begin", Name: "TestA"}, {Op: "match", Name: "TestA", API: api, Cfg: "c", Val: v, Matchers: []*Matcher{{M: "any", Paths: []string{"nothing.here"}, EOMP: bp(false)}}[:n%2]}, {Op: "end", Name: "TestA"}}
				}
				v2 := strVal(rc)
				if n%3 == 0 {
					v2 = bytesVal(rc)
				}
				sc.Procs = append(sc.Procs, &Proc{Spec: procSpec("default"), Steps: mk(strVal(st))})
				sc.Procs = append(sc.Procs, &Proc{Spec: procSpec([]string{"default", "ci", "color"}[n%3]), Steps: mk(v2)})
				sc.Note = fmt.Sprintf("near-miss documents via %s: %s vs %s", api, st, rc)
				// identities: canonical documents (with an ineffective matcher the harness supplies them)
				for pi, pr := range sc.Procs {
					doc := []string{st, rc}[pi]
					cn, _ := canonJSON(doc, true)
					pr.Steps[1].X = &Expect{VID: "j:" + shortHash([]byte(cn+"|defaultjson")), Inj: true}
				}
				scs = append(scs, sc)
				c.nontrivial(sc.Note)
			}
		}
	}
	return scs
}

// ---------------------------------------------------------------- C14

var jsonCorpus = []string{
	`{"a":1}`, `{"b":2,"a":1}`, `{"a":[1,2,3],"b":{"c":null,"d":true}}`, `[]`, `{}`, `[1,"x",null,false,1.5e3]`, `"str"`, `42`, `null`, `true`,
	`{"k":"---"}`, `{"nested":{"deep":{"deeper":[{"x":1},{"y":[]}]}}}`, `{"é":"ü","z":"\u0041"}`, `{"esc\"aped":"q\\uote","tab":"\t"}`,
	`{"n":-0,"m":1.0,"big":12345678901234567890,"exp":1e3,"neg":-1.5E-7,"zero":0}`, `[[1,2],[3,4],[],{}]`, `{"a":{"b":{"c":{"d":{"e":{}}}}}}`,
	`{"long":"` + strings.Repeat("x", 200) + `","arr":[` + strings.Repeat("1,", 60) + `1]}`, `9007199254740993`, `{"id":1541815603606036481}`,
	`{"p":"100%","u":"a%20b","f":"%d %s %v","%k":"%"}`, `"50%"`,
}

func respace(s string) string {
	// insignificant whitespace around structural characters (outside strings)
	var b strings.Builder
	in := false
	for i := 0; i < len(s); i++ {
		ch := s[i]
		if in {
			b.WriteByte(ch)
			if ch == '\\' && i+1 < len(s) {
				i++
				b.WriteByte(s[i])
			} else if ch == '"' {
				in = false
			}
			continue
		}
		switch ch {
		case '"':
			in = true
			b.WriteByte(ch)
		case '{', '[', ',', ':':
			b.WriteByte(ch)
			b.WriteString(" \n\t")
		case '}', ']':
			b.WriteString("\r\n ")
			b.WriteByte(ch)
		default:
			b.WriteByte(ch)
		}
	}
	return "  " + b.String() + "\n"
}

func reorder(n *jnode, b *strings.Builder) {
	switch n.kind {
	case 's':
		b.WriteString(n.raw)
	case 'a':
		b.WriteByte('[')
		for i, e := range n.elems {
			if i > 0 {
				b.WriteByte(',')
			}
			reorder(e, b)
		}
		b.WriteByte(']')
	case 'o':
		b.WriteByte('{')
		for i := len(n.keys) - 1; i >= 0; i-- {
			if i < len(n.keys)-1 {
				b.WriteByte(',')
			}
			b.WriteString(n.keys[i])
			b.WriteByte(':')
			reorder(n.elems[i], b)
		}
		b.WriteByte('}')
	}
}

func checkC14(c *CheckCtx) error {
	c.Rule = "JSON documents (corpus: nesting, empty containers, unicode and escaped keys, numbers of all shapes; plus TLC's abstract documents) x presentations {compact, re-spaced, members reversed} x input form {string, []byte, Go value} x format options {default, width/indent/no-sort}; each document is stored once and every other presentation/form must pass; invalid JSON must fail; non-trivial = distinct (document, presentation, form, options)"
	c.Assumptions = []string{"the Go-value form is the document decoded with json.Decoder.UseNumber and re-encoded by encoding/json (the property says: through its standard JSON encoding); documents with <, >, & or duplicate keys are not generated", "value identity = canonical text of an independent JSON reader (raw scalars kept); losslessness is judged by that reader on the stored text"}
	cases, err := c.docCases()
	if err != nil {
		return err
	}
	docs := append([]string{}, jsonCorpus...)
	for _, dc := range thin(cases, c.pick(60, 600), c.Seed) {
		docs = append(docs, jsonOfDoc(dc.D, 0))
	}
	var scs []*Scenario
	n := 0
	for _, doc := range docs {
		root, err := parseJSONRaw(doc)
		if err != nil {
			return fmt.Errorf("corpus document invalid: %q", doc)
		}
		var rb strings.Builder
		reorder(root, &rb)
		pres := []string{doc, respace(doc), rb.String(), respace(rb.String())}
		for _, cfgName := range []string{"c", "jw"} {
			for _, api := range []string{"json", "sjson"} {
				n++
				sc := &Scenario{ID: fmt.Sprintf("js%d", n), Configs: stdConfigs(), Program: []string{"TestA"}}
				sc.Configs["jw"] = &Cfg{Dir: sp("@/snaps"), JSON: &JSONCfg{Width: 10, Indent: "\t", SortKeys: false}}
				rec := []*Step{{Op: "begin", Name: "TestA"}, {Op: "match", Name: "TestA", API: api, Cfg: cfgName, Val: strVal(doc)}, {Op: "end", Name: "TestA"}}
				sc.Procs = append(sc.Procs, &Proc{Spec: procSpec("default"), Steps: rec})
				var rep []*Step
				for pi, p := range pres {
					for _, form := range []string{"str", "bytes", "gojson"} {
						if cfgName == "jw" && form == "gojson" && root.kind == 'o' {
							continue // without sorting, the Go value's own (sorted) member order is a different document
						}
						if form == "gojson" && root.kind == 's' && strings.HasPrefix(root.raw, "\"") {
							continue // a Go string is JSON text to MatchJSON, not a value to marshal
						}
						var v *Val
						switch form {
						case "bytes":
							v = bytesVal(p)
						case "gojson":
							v = &Val{K: "gojson", B64: base64.StdEncoding.EncodeToString([]byte(p))}
						default:
							v = strVal(p)
						}
						rep = append(rep, &Step{Op: "begin", Name: "TestA"}, &Step{Op: "match", Name: "TestA", API: api, Cfg: cfgName, Val: v}, &Step{Op: "end", Name: "TestA"})
						c.nontrivial(fmt.Sprintf("%s|%d|%s|%s|%s", shortHash([]byte(doc)), pi, form, cfgName, api))
					}
				}
				sc.Procs = append(sc.Procs, &Proc{Spec: procSpec("ci"), Steps: rep})
				sc.Note = fmt.Sprintf("document %s via %s cfg=%s: stored once, %d presentations/forms replayed read-only", clip(doc), api, cfgName, len(rep)/3)
				scs = append(scs, sc)
			}
		}
	}
	// documents with <, > and &: the Go-value form goes through the STANDARD encoding (which writes
	// \u003c, \u003e, \u0026); the string / []byte forms here are that same standard text, so all three
	// forms are one document in one spelling and must store the same text
	for i, doc := range []string{`{"html":"<b>bold</b>"}`, `{"href":"https://example.org/?a=1&b=2","title":"x"}`, `["1 < 2",{"q":"R&D"}]`, `{"a<b":1,"list":["&",">"]}`} {
		std, ok := goJSONText(strVal(doc))
		if !ok {
			return fmt.Errorf("corpus document invalid: %q", doc)
		}
		forms := []*Val{strVal(std), bytesVal(std), {K: "gojson", B64: base64.StdEncoding.EncodeToString([]byte(doc))}}
		for _, api := range []string{"json", "sjson"} {
			for first := range forms {
				n++
				sc := &Scenario{ID: fmt.Sprintf("jh%d", n), Configs: stdConfigs(), Program: []string{"TestA"}}
				sc.Procs = append(sc.Procs, &Proc{Spec: procSpec("default"), Steps: []*Step{{Op: "begin", Name: "TestA"}, {Op: "match", Name: "TestA", API: api, Cfg: "c", Val: forms[first]}, {Op: "end", Name: "TestA"}}})
				var rep []*Step
				for _, f := range forms {
					rep = append(rep, &Step{Op: "begin", Name: "TestA"}, &Step{Op: "match", Name: "TestA", API: api, Cfg: "c", Val: f}, &Step{Op: "end", Name: "TestA"})
				}
				sc.Procs = append(sc.Procs, &Proc{Spec: procSpec("ci"), Steps: rep})
				sc.Note = fmt.Sprintf("document %d with HTML-sensitive characters in its standard encoding via %s, stored from form %d, three forms replayed", i, api, first)
				scs = append(scs, sc)
				c.nontrivial(sc.Note)
			}
		}
	}
	// invalid input: must fail, write nothing, keep later slots
	for i, bad := range invalidJSON {
		for _, api := range []string{"json", "sjson"} {
			n++
			sc := &Scenario{ID: fmt.Sprintf("ji%d", n), Configs: stdConfigs(), Program: []string{"TestA"}}
			v := strVal(bad)
			switch i % 4 { // (the mode below cycles with period 3: every form meets every mode)
			case 1:
				v = bytesVal(bad)
			case 2, 3:
				if strings.TrimSpace(bad) != "" { // an empty RawMessage marshals as null
					v = &Val{K: "rawmsg", B64: base64.StdEncoding.EncodeToString([]byte(bad))}
				}
			}
			sc.Procs = append(sc.Procs, &Proc{Spec: procSpec([]string{"default", "update", "ci"}[i%3]), Steps: []*Step{{Op: "begin", Name: "TestA"},
				{Op: "match", Name: "TestA", API: api, Cfg: "c", Val: v, X: &Expect{Invalid: true}},
				{Op: "match", Name: "TestA", API: api, Cfg: "c", Val: strVal(`{"ok":true}`)}, {Op: "end", Name: "TestA"}}})
			sc.Note = fmt.Sprintf("invalid JSON %q via %s", bad, api)
			scs = append(scs, sc)
			c.nontrivial(sc.Note)
		}
	}
	// invalid input whose malformed part is exactly what a matcher replaces: the document is judged
	// as given, not as the matchers leave it (seeded change R6-C14-B)
	for i, bm := range []struct{ bad, path string }{
		{`{"id": 0123}`, "id"}, {`{"when": tru}`, "when"}, {`{"meta":{"a":1,,"b":2}}`, "meta"}, {`{"a":01,"b":2}`, "a"},
		{`{"l":[1,],"k":1}`, "l"}, {`{"s":'x'}`, "s"}, {`{"n":+1}`, "n"}, {`{"o":{"x":1,}}`, "o"}, {`{"o":{"x":.5}}`, "o.x"},
		{`[{"id":1.}]`, "0.id"},
	} {
		for _, api := range []string{"json", "sjson"} {
			n++
			sc := &Scenario{ID: fmt.Sprintf("jm%d", n), Configs: stdConfigs(), Program: []string{"TestA"}}
			v := strVal(bm.bad)
			if i%2 == 1 {
				v = bytesVal(bm.bad)
			}
			m := &Matcher{M: "any", Paths: []string{bm.path}}
			if i%3 == 2 {
				m.EOMP = bp(false)
			}
			sc.Procs = append(sc.Procs, &Proc{Spec: procSpec([]string{"default", "update", "ci"}[i%3]), Steps: []*Step{{Op: "begin", Name: "TestA"},
				{Op: "match", Name: "TestA", API: api, Cfg: "c", Val: v, Matchers: []*Matcher{m}, X: &Expect{Invalid: true}},
				{Op: "match", Name: "TestA", API: api, Cfg: "c", Val: strVal(`{"ok":true}`)}, {Op: "end", Name: "TestA"}}})
			sc.Note = fmt.Sprintf("invalid JSON %q via %s with match.Any(%q) covering the malformed part", bm.bad, api, bm.path)
			scs = append(scs, sc)
			c.nontrivial(sc.Note)
		}
	}
	c.sample(map[string]any{"document": jsonCorpus[14], "presentations": []string{respace(jsonCorpus[14])}})
	scs = append(scs, jsonNearMiss(c)...)
	scs = append(scs, hugeDoc()...)
	// the stored text is the document in the format of the Config that wrote it: the same document
	// through a Config with other format options is a different text (reported, or rewritten in update mode)
	scs = append(scs, reformatted("json", "rj")...)
	return c.runSeq(scs)
}
