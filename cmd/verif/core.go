package main

import (
	"bytes"
	"context"
	"encoding/json"
	"errors"
	"fmt"
	"os"
	"os/exec"
	"path/filepath"
	"strings"
	"sync"
	"time"
)

// Inconclusive is an error that must end the check with exit code 2 (DESIGN.md §1 rule 1).
type Inconclusive struct{ msg string }

func (e *Inconclusive) Error() string { return e.msg }

// HangErr: the driver was killed by the test runner's timeout with a goroutine blocked in a lock of package snaps
type HangErr struct{ H *Hang }

func (e *HangErr) Error() string {
	return fmt.Sprintf("driver timed out with a goroutine blocked in [%s] at %s", e.H.State, e.H.Where)
}

func inconclusive(format string, a ...any) error {
	return &Inconclusive{fmt.Sprintf(format, a...)}
}

// ---------------------------------------------------------------- environment

var (
	verifHome = findHome()
	repoDir   = envOr("VERIF_REPO", "/repo")
)

func envOr(k, d string) string {
	if v := os.Getenv(k); v != "" {
		return v
	}
	return d
}

func findHome() string {
	if v := os.Getenv("VERIF_HOME"); v != "" {
		return v
	}
	if exe, err := os.Executable(); err == nil {
		d := filepath.Dir(filepath.Dir(exe))
		if _, err := os.Stat(filepath.Join(d, "spec")); err == nil {
			return d
		}
	}
	wd, _ := os.Getwd()
	return wd
}

// goEnv is the environment of every go tool invocation (offline, pinned toolchain).
func goEnv(extra ...string) []string {
	env := []string{
		"PATH=" + os.Getenv("PATH"),
		"HOME=" + os.Getenv("HOME"),
		"GOFLAGS=-mod=mod", "GOPROXY=off", "GOSUMDB=off", "GOTOOLCHAIN=local",
		"GOCACHE=" + envOr("GOCACHE", filepath.Join(os.Getenv("HOME"), ".cache", "go-build")),
		"GOMODCACHE=" + envOr("GOMODCACHE", filepath.Join(os.Getenv("HOME"), "go", "pkg", "mod")),
		"TMPDIR=" + os.TempDir(),
	}
	return append(env, extra...)
}

// ---------------------------------------------------------------- scratch

type Scratch struct {
	Root string
	mu   sync.Mutex
	n    int
}

func newScratch(tag string) (*Scratch, error) {
	base := envOr("VERIF_SCRATCH", os.TempDir())
	d, err := os.MkdirTemp(base, "verif-"+tag+"-")
	if err != nil {
		return nil, err
	}
	return &Scratch{Root: d}, nil
}

func (s *Scratch) Close() {
	if os.Getenv("VERIF_KEEP") == "" {
		os.RemoveAll(s.Root)
	} else {
		fmt.Fprintln(os.Stderr, "kept scratch", s.Root)
	}
}

func (s *Scratch) Sub(name string) string {
	d := filepath.Join(s.Root, name)
	os.MkdirAll(d, 0o755)
	return d
}

func (s *Scratch) Next(prefix string) string {
	s.mu.Lock()
	s.n++
	n := s.n
	s.mu.Unlock()
	return fmt.Sprintf("%s%d", prefix, n)
}

func copyFile(src, dst string) error {
	b, err := os.ReadFile(src)
	if err != nil {
		return err
	}
	if err := os.MkdirAll(filepath.Dir(dst), 0o755); err != nil {
		return err
	}
	return os.WriteFile(dst, b, 0o644)
}

func copyTree(src, dst string) error {
	return filepath.Walk(src, func(p string, info os.FileInfo, err error) error {
		if err != nil {
			return err
		}
		rel, _ := filepath.Rel(src, p)
		if info.IsDir() {
			return os.MkdirAll(filepath.Join(dst, rel), 0o755)
		}
		return copyFile(p, filepath.Join(dst, rel))
	})
}

// ---------------------------------------------------------------- driver build

type Driver struct {
	Dir    string // directory holding the driver sources (tdir of the contract)
	Bin    string
	Bins   map[string]string // variant -> binary ("", "trimpath", "deep", "deep-trimpath")
	GoJSON map[string]string // json.Marshal text of the named Go values, as the driver reports them
	Note   string
}

// buildDriver copies the driver template next to the scratch root and compiles it against the
// CURRENT working tree of the repository (replace directive), with optional build flags.
func buildDriver(sc *Scratch, name string, flags ...string) (*Driver, error) {
	dir := sc.Sub(name)
	src := filepath.Join(verifHome, "harness", "prog")
	ents, err := os.ReadDir(src)
	if err != nil {
		return nil, err
	}
	for _, e := range ents {
		if e.IsDir() {
			if err := copyTree(filepath.Join(src, e.Name()), filepath.Join(dir, e.Name())); err != nil {
				return nil, err
			}
			continue
		}
		if strings.HasSuffix(e.Name(), ".go") {
			if err := copyFile(filepath.Join(src, e.Name()), filepath.Join(dir, e.Name())); err != nil {
				return nil, err
			}
		}
	}
	tmpl, err := os.ReadFile(filepath.Join(src, "go.mod.tmpl"))
	if err != nil {
		return nil, err
	}
	if err := os.WriteFile(filepath.Join(dir, "go.mod"), bytes.ReplaceAll(tmpl, []byte("@@REPO@@"), []byte(repoDir)), 0o644); err != nil {
		return nil, err
	}
	if err := copyFile(filepath.Join(repoDir, "go.sum"), filepath.Join(dir, "go.sum")); err != nil {
		return nil, err
	}
	bin := filepath.Join(dir, "prog.test")
	args := append([]string{"test", "-c", "-vet=off", "-o", bin}, flags...)
	args = append(args, ".")
	cmd := exec.Command("go", args...)
	cmd.Dir = dir
	cmd.Env = goEnv()
	out, err := cmd.CombinedOutput()
	if err != nil {
		return nil, inconclusive("driver build failed (the repository may not compile): %v\n%s", err, out)
	}
	d := &Driver{Dir: dir, Bin: bin, GoJSON: map[string]string{}, Bins: map[string]string{"": bin}}
	desc := filepath.Join(dir, "describe.json")
	dc := exec.Command(bin, "-test.run", "^$")
	dc.Dir = dir
	dc.Env = []string{"PATH=/usr/bin:/bin", "HOME=" + os.Getenv("HOME"), "VERIF_DESCRIBE=" + desc, "NO_COLOR=1"}
	if out, err := dc.CombinedOutput(); err != nil {
		return nil, inconclusive("driver describe failed: %v\n%s", err, out)
	}
	b, err := os.ReadFile(desc)
	if err != nil {
		return nil, inconclusive("driver describe wrote nothing: %v", err)
	}
	if err := json.Unmarshal(b, &d.GoJSON); err != nil {
		return nil, err
	}
	return d, nil
}

// ---------------------------------------------------------------- processes

type ProcSpec struct {
	CI      string            // "" (off), "CI", "GITHUB_ACTIONS", "CI=false+vendor"
	UpdVar  *string           // UPDATE_SNAPS value, nil = unset
	Color   bool              // colours on (NO_COLOR unset)
	Count   int               // -test.count
	Run     string            // -test.run
	Par     int               // -test.parallel
	Shuffle string            // -test.shuffle
	Noise   bool              // ambient settings the mode table does not mention: a -update flag of the host test binary, UPDATE / UPDATE_GOLDEN / ... variables
	Env     map[string]string // extra
	Dir     string            // working directory ("" = the package directory of the binary)
	Variant string            // driver variant: "", "trimpath", "deep", "deep-trimpath"
}

func (p *ProcSpec) ciOn() bool {
	return p.CI == "CI" || p.CI == "GITHUB_ACTIONS" || p.CI == "BUILD_NUMBER"
}

func (p *ProcSpec) updvarClass() string {
	if p.UpdVar == nil {
		return "unset"
	}
	switch *p.UpdVar {
	case "true", "clean":
		return *p.UpdVar
	}
	return "other"
}

func (p *ProcSpec) sig() string {
	uv := "<unset>"
	if p.UpdVar != nil {
		uv = *p.UpdVar
	}
	return fmt.Sprintf("%s|%s|%v|%d|%s|%d|%s|%v|%v", p.CI, uv, p.Color, p.Count, p.Run, p.Par, p.Shuffle, p.Env, p.Noise)
}

// runDriver executes the driver binary once with a script; returns its raw events.
func runDriver(d *Driver, p *ProcSpec, scriptPath, tracePath string, timeout time.Duration) ([]*RawEvent, error) {
	args := []string{"-test.timeout", "120s"}
	if p.Run != "" {
		args = append(args, "-test.run", p.Run)
	}
	if p.Count > 1 {
		args = append(args, "-test.count", fmt.Sprint(p.Count))
	}
	if p.Par > 0 {
		args = append(args, "-test.parallel", fmt.Sprint(p.Par))
	}
	if p.Noise {
		args = append(args, "-update", "-u")
	}
	if p.Shuffle != "" {
		args = append(args, "-test.shuffle", p.Shuffle)
	}
	ctx, cancel := context.WithTimeout(context.Background(), timeout)
	defer cancel()
	bin := d.Bin
	if p.Variant != "" {
		bin = d.Bins[p.Variant]
		if bin == "" {
			return nil, inconclusive("driver variant %q was not built", p.Variant)
		}
	}
	cmd := exec.CommandContext(ctx, bin, args...)
	cmd.Dir = filepath.Dir(bin)
	if p.Dir != "" {
		cmd.Dir = p.Dir
	}
	env := []string{"PATH=/usr/bin:/bin", "HOME=" + os.Getenv("HOME"), "VERIF_SCRIPT=" + scriptPath, "TMPDIR=" + os.TempDir()}
	switch p.CI {
	case "CI":
		env = append(env, "CI=true")
	case "GITHUB_ACTIONS":
		env = append(env, "GITHUB_ACTIONS=true")
	case "BUILD_NUMBER": // a build server that sets only the generic counters (no vendor variable)
		env = append(env, "BUILD_NUMBER=42")
	case "CI=false": // explicit opt-out wins over a vendor variable
		env = append(env, "CI=false", "GITHUB_ACTIONS=true")
	}
	if p.UpdVar != nil {
		env = append(env, "UPDATE_SNAPS="+*p.UpdVar)
	}
	if !p.Color {
		env = append(env, "NO_COLOR=1")
	}
	if p.Noise {
		env = append(env, "UPDATE=true", "UPDATE_GOLDEN=1", "UPDATE_SNAPSHOTS=true", "SNAPSHOT_UPDATE=1", "UPDATE_SNAP=true", "SNAPS_UPDATE=true", "GOLDEN=1")
	}
	for k, v := range p.Env {
		env = append(env, k+"="+v)
	}
	cmd.Env = env
	out, err := cmd.CombinedOutput()
	evs, rerr := readRaw(tracePath)
	if rerr != nil {
		return nil, inconclusive("driver produced no readable trace (%v); process error %v; output:\n%s", rerr, err, tail(out, 2000))
	}
	if len(evs) == 0 || evs[len(evs)-1].Ev != "exit" {
		if h := hangOf(string(out)); h != nil {
			return evs, &HangErr{h}
		}
		return evs, inconclusive("driver died before its exit event (process error %v); output:\n%s", err, tail(out, 2000))
	}
	return evs, nil
}

func tail(b []byte, n int) string {
	if len(b) > n {
		b = b[len(b)-n:]
	}
	return string(b)
}

// ---------------------------------------------------------------- raw events (driver side format)

type RawEvent struct {
	Seq   int               `json:"seq"`
	Ev    string            `json:"ev"`
	H     string            `json:"h"`
	ID    string            `json:"id"`
	T     string            `json:"t"`
	Exec  int               `json:"exec"`
	Errs  []string          `json:"errs"`
	Logs  []string          `json:"logs"`
	Out   string            `json:"out"`
	Env   map[string]string `json:"env"`
	Dirs  []*RawDir         `json:"dirs"`
	Buf   string            `json:"buf"`
	Note  string            `json:"note"`
	Panic string            `json:"panic"`
}

type RawDir struct {
	Dir     string     `json:"dir"`
	Missing bool       `json:"missing"`
	Files   []*RawFile `json:"files"`
}

type RawFile struct {
	P       string `json:"p"`
	IsDir   bool   `json:"isdir"`
	B64     string `json:"b64"`
	Touched bool   `json:"touched"`
}

func readRaw(path string) ([]*RawEvent, error) {
	b, err := os.ReadFile(path)
	if err != nil {
		return nil, err
	}
	var out []*RawEvent
	dec := json.NewDecoder(bytes.NewReader(b))
	for dec.More() {
		e := &RawEvent{}
		if err := dec.Decode(e); err != nil {
			return out, err
		}
		out = append(out, e)
	}
	return out, nil
}

// ---------------------------------------------------------------- parallel helper

func parallelDo(n, workers int, f func(i int) error) error {
	if workers < 1 {
		workers = 1
	}
	var wg sync.WaitGroup
	var mu sync.Mutex
	var first error
	ch := make(chan int)
	for w := 0; w < workers; w++ {
		wg.Add(1)
		go func() {
			defer wg.Done()
			for i := range ch {
				if err := f(i); err != nil {
					mu.Lock()
					if first == nil {
						first = err
					}
					mu.Unlock()
				}
			}
		}()
	}
	for i := 0; i < n; i++ {
		ch <- i
	}
	close(ch)
	wg.Wait()
	return first
}

var errNotImplemented = errors.New("not implemented")

// buildVariants adds the -trimpath build and the two-levels-deep sub-package builds (C11).
func (d *Driver) buildVariants() error {
	deep := filepath.Join(d.Dir, "sub", "deep")
	os.MkdirAll(deep, 0o755)
	ents, _ := os.ReadDir(d.Dir)
	for _, e := range ents {
		if !e.IsDir() && strings.HasSuffix(e.Name(), ".go") {
			if err := copyFile(filepath.Join(d.Dir, e.Name()), filepath.Join(deep, e.Name())); err != nil {
				return err
			}
		}
	}
	type v struct {
		name, pkg, out string
		flags          []string
	}
	vs := []v{
		{"trimpath", ".", filepath.Join(d.Dir, "prog_trim.test"), []string{"-trimpath"}},
		{"deep", "./sub/deep", filepath.Join(deep, "prog_deep.test"), nil},
		{"deep-trimpath", "./sub/deep", filepath.Join(deep, "prog_deep_trim.test"), []string{"-trimpath"}},
	}
	for _, x := range vs {
		args := append([]string{"test", "-c", "-vet=off", "-o", x.out}, x.flags...)
		args = append(args, x.pkg)
		cmd := exec.Command("go", args...)
		cmd.Dir = d.Dir
		cmd.Env = goEnv()
		if out, err := cmd.CombinedOutput(); err != nil {
			return inconclusive("driver variant %s build failed: %v\n%s", x.name, err, out)
		}
		d.Bins[x.name] = x.out
	}
	return nil
}
