package main

import (
	"encoding/json"
	"fmt"
	"sort"
	"strconv"
	"strings"
	"time"
)

// C07, C09, C10, C20: the Clean family (DESIGN.md §6).

func init() {
	register("C07", "model_checking", "TLC check of examineSnaps at line level against the contract (MC_Clean) + TLC-generated cases and random record/current-run programs executed with the real runner and Clean, traces validated by TLC (addressed set computed by the contract from the events)", checkC07)
	register("C09", "model_checking", "TLC check of the stale-item clauses (MC_Clean) + generated directory contents (stale entries, stale standalone files, decoys) x Clean modes on the real code, traces validated by TLC", checkC09)
	register("C10", "model_checking", "TLC check that Clean rewrites preserve content and sort idempotently (MC_Clean) + every generated (file, live set, delete, sort) case replayed through the real runner incl. a second Clean, traces validated by TLC", checkC10)
	register("C20", "model_checking", "contract counts outcomes from per-call events and TLC compares with the parsed Snapshot Summary; long mixed histories, sequential and with real parallel subtests", checkC20)
}

type cleanCase struct {
	Arr    []string `json:"arr"`
	Live   []string `json:"live"`
	Delete bool     `json:"delete"`
	Sort   bool     `json:"sort"`
	Blank  bool     `json:"blank"`
}

var cleanBodies = map[string][]string{
	"TestA - 1":      {"a"},
	"TestA - 2":      {"", "b", ""},
	"TestA - 10":     {"[TestGhost - 1]", "x"},
	"TestB - 1":      {"--- ", "/-/-/-/"},
	"TestAB - 1":     {""},
	"TestA/x - 1":    {"[TestB - 1] ", " ---"},
	"BenchmarkX - 1": {"bench"},
}

func unescapeLines(ls []string) string {
	out := make([]string, len(ls))
	for i, l := range ls {
		if l == "/-/-/-/" {
			l = "---"
		}
		out[i] = l
	}
	return strings.Join(out, "\n")
}

func cleanCaseScenario(id string, cc *cleanCase) *Scenario {
	sc := &Scenario{ID: id, Configs: stdConfigs(), Program: append([]string{}, topTests...)}
	var b strings.Builder
	for _, e := range cc.Arr {
		if cc.Blank {
			b.WriteString("\n")
		}
		b.WriteString("[" + e + "]\n" + strings.Join(cleanBodies[e], "\n") + "\n---\n")
	}
	if len(cc.Arr) > 0 {
		sc.Init = append(sc.Init, InitFile{P: "snaps/main_test.snap", Content: []byte(b.String()), Role: "multi"})
	}
	// calls per test needed to address the live ids
	need := map[string]int{}
	for _, l := range cc.Live {
		i := strings.LastIndex(l, " - ")
		k, _ := strconv.Atoi(l[i+3:])
		if k > need[l[:i]] {
			need[l[:i]] = k
		}
	}
	callsFor := func(name string) []*Step {
		var st []*Step
		for k := 1; k <= need[name]; k++ {
			body, ok := cleanBodies[fmt.Sprintf("%s - %d", name, k)]
			v := fmt.Sprintf("fresh value %d", k)
			if ok {
				v = unescapeLines(body)
			}
			st = append(st, &Step{Op: "match", API: "snapshot", Cfg: "c", Val: strVal(v)})
		}
		return st
	}
	tests := map[string]*TDef{}
	names := make([]string, 0, len(need))
	for n := range need {
		names = append(names, n)
	}
	sort.Strings(names)
	for _, n := range names {
		if strings.Contains(n, "/") {
			continue
		}
		if !strings.HasPrefix(n, "Test") {
			continue // benchmark hosts cannot be driven by the scripted runner
		}
		tests[n] = &TDef{Execs: [][]*Step{callsFor(n)}}
	}
	for _, n := range names {
		if i := strings.Index(n, "/"); i >= 0 {
			top, sub := n[:i], n[i+1:]
			if tests[top] == nil {
				tests[top] = &TDef{Execs: [][]*Step{{}}}
			}
			tests[top].Execs[0] = append(tests[top].Execs[0], &Step{Op: "sub", Name: sub, Steps: callsFor(n)})
			sc.Program = append(sc.Program, n)
		}
	}
	spec := ProcSpec{}
	if cc.Delete {
		spec.UpdVar = sp("clean")
	}
	sc.Procs = append(sc.Procs, &Proc{Spec: spec, Real: true, State: "call", Tests: tests, Clean: &CleanDef{Sort: cc.Sort, Twice: true}})
	sc.Note = fmt.Sprintf("TLC clean case file=%v live=%v delete=%v sort=%v blank=%v", cc.Arr, cc.Live, cc.Delete, cc.Sort, cc.Blank)
	return sc
}

func (c *CheckCtx) cleanModel() error {
	dir, err := specDir(c.Sc, c.Sc.Next("mc"))
	if err != nil {
		return err
	}
	cfg := "MC_Clean_quick.cfg"
	if c.thorough() {
		cfg = "MC_Clean.cfg"
	}
	res, err := runTLC(dir, "MC_Clean_gen.tla", cfg, c.Workers, 20*time.Minute)
	if err != nil {
		return err
	}
	if res.Violation {
		return inconclusive("the line-level model of examineSnaps violates %s in the specification itself (no verdict about the code)\n%s", res.ViolatedBy, tail([]byte(res.Output), 2000))
	}
	c.model(cfg, res, true, "P_C07, P_C09, P_C10 hold on every enumerated (file, live set, delete, sort) case")
	return c.contractCleanModel()
}

// contractCleanModel model-checks the contract as a closed state machine with Clean as a transition
// (Contract!CClean, MC_ContractClean): processes that record, replay, update, skip and call Clean
// once or twice over a persistent directory.  Quick tier: random behaviours (5 calls, 4 processes);
// thorough tier additionally the exhaustive small universe (2 tests, 1 directory, 2 calls, 2 processes).
func (c *CheckCtx) contractCleanModel() error {
	const props = "P_Shape, P_C07, P_C08, P_C09, P_C10, P_Idem, P_Exact, P_Replay and the action properties A_OnlyCallsWrite, A_OnlyCleanRemoves, A_CountsGrow"
	dir, err := specDir(c.Sc, c.Sc.Next("mc"))
	if err != nil {
		return err
	}
	num := "200"
	if c.thorough() {
		num = "20000"
	}
	res, err := runTLC(dir, "MC_ContractClean.tla", "MC_ContractClean_sim.cfg", c.Workers, 20*time.Minute, "-simulate", "num="+num, "-depth", "40", "-seed", fmt.Sprint(c.Seed))
	if err != nil {
		return err
	}
	if res.Violation {
		return inconclusive("the contract with Clean as a transition violates %s in the specification itself (no verdict about the code)\n%s", res.ViolatedBy, tail([]byte(res.Output), 2000))
	}
	c.model("MC_ContractClean_sim.cfg (simulation, up to 5 calls per process, 4 processes, "+num+" behaviours per worker)", res, false, props+" hold in every state of the sampled behaviours")
	if c.thorough() {
		dir2, err := specDir(c.Sc, c.Sc.Next("mc"))
		if err != nil {
			return err
		}
		res2, err := runTLC(dir2, "MC_ContractClean.tla", "MC_ContractClean.cfg", c.Workers, 30*time.Minute)
		if err != nil {
			return err
		}
		if res2.Violation {
			return inconclusive("the contract with Clean as a transition violates %s in the specification itself (no verdict about the code)\n%s", res2.ViolatedBy, tail([]byte(res2.Output), 2000))
		}
		c.model("MC_ContractClean.cfg", res2, true, props+" hold on all behaviours of the small universe (2 tests, 1 directory, 2 values, 4 process modes, 2 calls per process, 2 processes, Clean once or twice)")
	}
	return nil
}

func (c *CheckCtx) cleanCases(limit int) error {
	dir, err := specDir(c.Sc, c.Sc.Next("gen"))
	if err != nil {
		return err
	}
	res, err := runTLC(dir, "MC_Clean_gen.tla", "Gen_Clean.cfg", 8, 10*time.Minute)
	if err != nil {
		return err
	}
	var cases []*cleanCase
	for _, line := range res.Printed {
		s, err := strconv.Unquote(line)
		if err != nil {
			return inconclusive("cannot unquote case: %v", err)
		}
		cc := &cleanCase{}
		if err := json.Unmarshal([]byte(strings.TrimPrefix(s, "@@")), cc); err != nil {
			return inconclusive("cannot parse case: %v", err)
		}
		cases = append(cases, cc)
	}
	c.model("Gen_Clean.cfg", res, true, fmt.Sprintf("%d cases emitted", len(cases)))
	// TLC's workers print in no fixed order: sort, so that a tier explores the same cases every run
	sort.Slice(cases, func(i, j int) bool {
		a, _ := json.Marshal(cases[i])
		b, _ := json.Marshal(cases[j])
		return string(a) < string(b)
	})
	if limit > 0 && len(cases) > limit {
		// stratified: every case in which Clean both prunes and sorts a file that holds stale entries
		// (the interplay of the two rewrites) is kept; the rest is thinned with a seed-dependent stride
		var keep, rest []*cleanCase
		for _, cc := range cases {
			live := map[string]bool{}
			for _, h := range cc.Live {
				live[h] = true
			}
			surv := 0
			for _, h := range cc.Arr {
				if live[h] {
					surv++
				}
			}
			if cc.Delete && cc.Sort && surv >= 1 && surv < len(cc.Arr) {
				keep = append(keep, cc)
			} else {
				rest = append(rest, cc)
			}
		}
		nkeep := len(keep)
		room := limit - len(keep)
		if room < limit/3 {
			room = limit / 3
		}
		step := len(rest)/room + 1
		for i := int(c.Seed) % step; i < len(rest); i += step {
			keep = append(keep, rest[i])
		}
		c.note("%d of %d clean cases in this tier (all %d of the prune-and-sort stratum)", len(keep), len(cases), nkeep)
		cases = keep
	}
	var scs []*Scenario
	for i, cc := range cases {
		sc := cleanCaseScenario(fmt.Sprintf("cc%d", i), cc)
		scs = append(scs, sc)
		c.nontrivial(sc.Note)
	}
	if len(cases) > 0 {
		c.sample(map[string]any{"source": "Gen_Clean.cfg", "case": cases[len(cases)/2]})
	}
	return c.runSeq(scs)
}

func (c *CheckCtx) randomClean(n int, tag string, modes []string, opt cleanGenOpts) error {
	g := newFgen(c.Seed*104729+int64(len(tag)), tag)
	scs := genCleanScenarios(g, n, allAPIs, modes, opt)
	for _, s := range scs {
		c.nontrivial(s.Note)
	}
	if len(scs) > 0 {
		c.sample(map[string]any{"source": "random record/current-run program with Clean", "note": scs[0].Note})
	}
	return c.runSeq(scs)
}

const cleanAssumptions = "programs are trees of tests/subtests with straight-line call lists (scripted driver); 'did not run' is read from the real runner's events; every execution of a test under -count makes the same calls unless a scenario says otherwise (K5); pre-existing files are well-formed frames"

var allCleanModes = []string{"default", "clean", "update", "ci", "other", "ci+update", "ci+clean"}

func checkC07(c *CheckCtx) error {
	c.variants = true // default-location scenarios also run in -trimpath and sub-package builds
	c.Rule = "(directory, program, -count, Clean mode) scenarios: every TLC-emitted clean case within bounds and seeded random programs (record run, changed current run, Clean); non-trivial = distinct scenario with at least one addressed entry or file at Clean time"
	c.Assumptions = []string{cleanAssumptions}
	if err := c.cleanModel(); err != nil {
		return err
	}
	if err := c.cleanCases(c.pick(600, 0)); err != nil {
		return err
	}
	if err := c.randomClean(c.pick(80, 1500), "a", allCleanModes,
		cleanGenOpts{maxTests: 4, maxCalls: 4, change: 0.3, drop: 0.3, add: 0.3, staleProb: 0.6, decoyProb: 0.5, sortProb: 0.5, againProb: 0.2, counts: true, moveProb: 0.2, oddDirs: true}); err != nil {
		return err
	}
	if err := c.repro(reproK5()); err != nil {
		return err
	}
	if err := c.repro(trimpathClean()...); err != nil {
		return err
	}
	return c.repro(malformedTail(true, 1), malformedTail(false, 2))
}

func checkC09(c *CheckCtx) error {
	c.NontrivialStat = "cleans_with_stale"
	c.Rule = "directory contents (stale entries at any position, stale standalone files, decoys, sub-directories, unvisited directories) x addressed sets x Clean modes incl. sort+stale+no-clean; non-trivial = distinct scenario with at least one stale item or decoy"
	c.Assumptions = []string{cleanAssumptions, "no -run filter in these scenarios (the property speaks about unfiltered runs)"}
	if err := c.cleanModel(); err != nil {
		return err
	}
	if err := c.cleanCases(c.pick(600, 0)); err != nil {
		return err
	}
	if err := c.randomClean(c.pick(100, 1500), "b", allCleanModes,
		cleanGenOpts{maxTests: 3, maxCalls: 4, change: 0.2, drop: 0.5, add: 0.2, staleProb: 0.9, decoyProb: 0.9, sortProb: 0.5, againProb: 0.2, counts: true, moveProb: 0.3, oddDirs: true}); err != nil {
		return err
	}
	if err := c.repro(oneStaleAmongMany()...); err != nil {
		return err
	}
	if err := c.repro(manyObsolete()...); err != nil {
		return err
	}
	return c.repro(reproK6(false), reproK6(true))
}

func checkC10(c *CheckCtx) error {
	c.Rule = "(file, stale set, delete, sort) transitions: every TLC-emitted case (ids in any order, numeric width T-2/T-10, bodies with blank, terminator-like and header-like lines), each followed by a second Clean; plus random programs; non-trivial = distinct case in which Clean has to rewrite or must not"
	c.Assumptions = []string{cleanAssumptions, "ids are Test-shaped (K6 excluded by signature)"}
	if err := c.cleanModel(); err != nil {
		return err
	}
	if err := c.cleanCases(c.pick(900, 0)); err != nil {
		return err
	}
	if err := c.randomClean(c.pick(60, 1200), "s", []string{"default", "clean", "update"},
		cleanGenOpts{maxTests: 4, maxCalls: 5, change: 0.2, drop: 0.4, add: 0.3, staleProb: 0.8, decoyProb: 0.3, sortProb: 0.8, againProb: 0.6}); err != nil {
		return err
	}
	if err := c.repro(oneStaleAmongMany()...); err != nil {
		return err
	}
	return c.repro(reproK6(false), reproK6(true))
}

func checkC20(c *CheckCtx) error {
	c.Rule = "histories of calls with mixed outcomes followed by Clean: random real-runner programs in every mode (sequential and parallel subtests), skips included; non-trivial = distinct scenario whose summary has at least two non-zero totals"
	c.Assumptions = []string{cleanAssumptions, "the summary is parsed after stripping SGR sequences; colours on and off"}
	if err := c.contractModel(c.thorough()); err != nil {
		return err
	}
	if err := c.randomClean(c.pick(120, 2000), "t", []string{"default", "clean", "update", "ci", "other", "color", "ci+clean"},
		cleanGenOpts{maxTests: 5, maxCalls: 6, change: 0.5, drop: 0.3, add: 0.3, staleProb: 0.5, decoyProb: 0.3, sortProb: 0.3, againProb: 0.1, counts: true, skipProb: 0.2, parProb: 0.3, badProb: 0.2}); err != nil {
		return err
	}
	if err := c.repro(manyObsolete()...); err != nil {
		return err
	}
	if err := c.repro(nestedSkips()...); err != nil {
		return err
	}
	return c.summaryHistories()
}

func (c *CheckCtx) summaryHistories() error { return nil }

// contractModel model-checks Contract.tla itself (MC_Contract: one outcome per call, totals add up,
// a call changes at most what it addresses, CI is read-only).
func (c *CheckCtx) contractModel(deep bool) error {
	dir, err := specDir(c.Sc, c.Sc.Next("mc"))
	if err != nil {
		return err
	}
	res, err := runTLC(dir, "MC_Contract.tla", "MC_Contract.cfg", c.Workers, 40*time.Minute)
	if err != nil {
		return err
	}
	if res.Violation {
		return inconclusive("the contract violates %s in the specification itself", res.ViolatedBy)
	}
	c.model("MC_Contract.cfg", res, true, "P_C20, P_C03, P_C05, P_Writes hold on the contract's own state machine (all histories of up to 2 calls)")
	if deep {
		// histories of up to 6 calls are far too many to enumerate (288 choices per call): random
		// behaviours of the same state machine, every invariant evaluated in every state
		dir2, err := specDir(c.Sc, c.Sc.Next("mc"))
		if err != nil {
			return err
		}
		res2, err := runTLC(dir2, "MC_Contract.tla", "MC_Contract_sim.cfg", c.Workers, 40*time.Minute, "-simulate", "num=20000", "-depth", "40", "-seed", fmt.Sprint(c.Seed))
		if err != nil {
			return err
		}
		if res2.Violation {
			return inconclusive("the contract violates %s in the specification itself (simulation)", res2.ViolatedBy)
		}
		c.model("MC_Contract_sim.cfg (simulation, up to 6 calls, 20000 behaviours per worker)", res2, false, "P_C20, P_C03, P_C05, P_Writes hold in every state of the sampled behaviours")
	}
	return nil
}

// ---------------------------------------------------------------- reproductions of known findings

// reproK5: -count 2 with executions that make different numbers of calls (3 then 1): Clean divides
// the cumulative count by -count and judges an addressed entry obsolete.
func reproK5() *Scenario {
	sc := &Scenario{ID: "k5", Configs: stdConfigs(), Program: append([]string{}, topTests...), Tags: []string{"repro:K5"}}
	call := func(i int) *Step {
		return &Step{Op: "match", API: "snapshot", Cfg: "c", Val: strVal(fmt.Sprintf("value %d", i))}
	}
	three := []*Step{call(1), call(2), call(3)}
	one := []*Step{call(1)}
	sc.Procs = append(sc.Procs, &Proc{Spec: ProcSpec{}, Real: true, State: "call", Tests: map[string]*TDef{"TestA": {Execs: [][]*Step{three}}}})
	sc.Procs = append(sc.Procs, &Proc{Spec: ProcSpec{UpdVar: sp("clean"), Count: 2}, Real: true, State: "call", Clean: &CleanDef{},
		Tests: map[string]*TDef{"TestA": {Execs: [][]*Step{{call(1), call(2), call(3)}, one}}}})
	sc.Note = "K5 reproduction: -count 2, executions of TestA make 3 and 1 calls"
	return sc
}

// reproK6: an entry whose header Clean does not recognise ("[BenchmarkX - 1]") in a file that is
// rewritten: it is neither reported nor kept.
func reproK6(sortOnly bool) *Scenario {
	sc := &Scenario{ID: fmt.Sprintf("k6%v", sortOnly), Configs: stdConfigs(), Program: append([]string{}, topTests...), Tags: []string{"repro:K6"}}
	sc.Init = append(sc.Init, InitFile{P: "snaps/main_test.snap", Role: "multi",
		Content: []byte("\n[TestZebra - 1]\nstale\n---\n\n[BenchmarkX - 1]\nbench\n---\n\n[TestA - 1]\nvalue 1\n---\n")})
	spec := ProcSpec{UpdVar: sp("clean")}
	cl := &CleanDef{}
	if sortOnly {
		spec = ProcSpec{}
		cl = &CleanDef{Sort: true}
	}
	sc.Procs = append(sc.Procs, &Proc{Spec: spec, Real: true, State: "call", Clean: cl,
		Tests: map[string]*TDef{"TestA": {Execs: [][]*Step{{{Op: "match", API: "snapshot", Cfg: "c", Val: strVal("value 1")}}}}}})
	sc.Note = fmt.Sprintf("K6 reproduction: file holding a [BenchmarkX - 1] entry is rewritten (sort only = %v)", sortOnly)
	return sc
}

// reproK8: `%` in a Filename is interpreted by the Sprintf that substitutes the standalone ordinal.
func reproK8() *Scenario {
	sc := &Scenario{ID: "k8", Configs: stdConfigs(), Program: []string{"TestA"}, Tags: []string{"repro:K8"}}
	sc.Configs["pc"] = &Cfg{Dir: sp("@/snaps"), Filename: sp("100%")}
	sc.Procs = append(sc.Procs, &Proc{Spec: ProcSpec{}, Steps: []*Step{{Op: "begin", Name: "TestA"},
		{Op: "match", Name: "TestA", API: "ssnap", Cfg: "pc", Val: strVal("v")}, {Op: "end", Name: "TestA"}}})
	sc.Note = "K8 reproduction: standalone snapshot with Filename \"100%\""
	return sc
}

func (c *CheckCtx) repro(scs ...*Scenario) error {
	for _, s := range scs {
		c.nontrivial(s.Note)
	}
	return c.runSeq(scs)
}

// oneStaleAmongMany: several used multi-entry files, exactly one of them holds a stale entry. Clean
// (deleting, not sorting) rewrites that file and leaves the others untouched, in whatever order it
// walks them (the order is a map iteration: each scenario is one draw).
func oneStaleAmongMany() []*Scenario {
	var out []*Scenario
	files := []struct{ cfg, path, stale string }{{"c", "snaps/main_test.snap", "TestGone - 1"}, {"f", "snaps/custom.snap", "TestGone - 2"}, {"e", "snaps/ext.snap.txt", "TestOld - 1"}}
	for rep := 0; rep < 3; rep++ {
		for si := range files {
			sc := &Scenario{ID: fmt.Sprintf("osm%d_%d", rep, si), Configs: stdConfigs(), Program: append([]string{}, topTests...)}
			for fi, f := range files {
				content := "\n[TestA - 1]\nvalue in " + f.cfg + "\n---\n\n[TestB - 1]\nb in " + f.cfg + "\n---\n"
				if fi == si {
					content = "\n[TestA - 1]\nvalue in " + f.cfg + "\n---\n\n[" + f.stale + "]\nleft over\n---\n\n[TestB - 1]\nb in " + f.cfg + "\n---\n"
				}
				sc.Init = append(sc.Init, InitFile{P: f.path, Role: "multi", Content: []byte(content)})
			}
			tests := map[string]*TDef{"TestA": {Execs: [][]*Step{{}}}, "TestB": {Execs: [][]*Step{{}}}}
			for _, f := range files {
				tests["TestA"].Execs[0] = append(tests["TestA"].Execs[0], &Step{Op: "match", API: "snapshot", Cfg: f.cfg, Val: strVal("value in " + f.cfg)})
				tests["TestB"].Execs[0] = append(tests["TestB"].Execs[0], &Step{Op: "match", API: "snapshot", Cfg: f.cfg, Val: strVal("b in " + f.cfg)})
			}
			sc.Procs = append(sc.Procs, &Proc{Spec: procSpec("clean"), Real: true, State: "call", Clean: &CleanDef{Sort: rep == 2}, Tests: tests})
			sc.Note = fmt.Sprintf("three used files, the stale entry is in %s, Clean deletes (sort requested: %v)", files[si].path, rep == 2)
			out = append(out, sc)
		}
	}
	return out
}

// manyObsolete: far more stale items than usual (45 entries in a used file, 35 stale files): every
// one of them is listed, whatever the length of the lists.
func manyObsolete() []*Scenario {
	var out []*Scenario
	for i, mode := range []string{"default", "clean"} {
		sc := &Scenario{ID: fmt.Sprintf("many%d", i), Configs: stdConfigs(), Program: append([]string{}, topTests...)}
		var b strings.Builder
		b.WriteString("\n[TestA - 1]\nlive\n---\n")
		for k := 0; k < 45; k++ {
			fmt.Fprintf(&b, "\n[TestGone%02d - 1]\nstale %d\n---\n", k, k)
		}
		sc.Init = append(sc.Init, InitFile{P: "snaps/main_test.snap", Role: "multi", Content: []byte(b.String())})
		for k := 0; k < 35; k++ {
			sc.Init = append(sc.Init, InitFile{P: fmt.Sprintf("snaps/TestOld%02d_1.snap", k), Role: "alone", Owner: fmt.Sprintf("TestOld%02d", k), Content: []byte("stale standalone")})
		}
		sc.Procs = append(sc.Procs, &Proc{Spec: procSpec(mode), Real: true, State: "call", Clean: &CleanDef{}, Tests: map[string]*TDef{
			"TestA": {Execs: [][]*Step{{{Op: "match", API: "snapshot", Cfg: "c", Val: strVal("live")}, {Op: "match", API: "snapshot", Cfg: "c", Val: strVal("new")}}}},
		}})
		sc.Note = "45 stale entries and 35 stale files next to one live test, mode " + mode
		out = append(out, sc)
	}
	return out
}

// nestedSkips: skips recorded in every order relative to the skip of an ancestor -- a parent that
// calls snaps.Skip at the end of its body after its subtests skipped (sequential; with -count 2 the
// second execution's subtests skip while the parent of the first execution is already recorded),
// and parallel subtests that skip after the parent's own skip.  Every snaps.Skip* call counts once
// in the summary (seeded change R6-C20-B).
func nestedSkips() []*Scenario {
	var out []*Scenario
	n := 0
	sub := func(name string, par bool, kind string) *Step {
		return &Step{Op: "sub", Name: name, Parallel: par, Steps: []*Step{{Op: "skip", Kind: kind}}}
	}
	for _, par := range []bool{false, true} {
		for _, count := range []int{1, 2, 3} {
			for _, mode := range []string{"default", "clean"} {
				n++
				sc := &Scenario{ID: fmt.Sprintf("nsk%d", n), Configs: stdConfigs(), Program: append([]string{}, topTests...)}
				body := func() []*Step {
					return []*Step{{Op: "match", API: "snapshot", Cfg: "c", Val: strVal("parent value")},
						sub("x", par, "Skip"), sub("y", par, "Skipf"), {Op: "skip", Kind: "Skip"}}
				}
				other := func() []*Step {
					return []*Step{{Op: "match", API: "snapshot", Cfg: "c", Val: strVal("other value")}}
				}
				execs := func(b func() []*Step) [][]*Step {
					var e [][]*Step
					for i := 0; i < count; i++ {
						e = append(e, b())
					}
					return e
				}
				spec := procSpec(mode)
				spec.Count = count
				sc.Procs = append(sc.Procs, &Proc{Spec: spec, Real: true, State: "call", Clean: &CleanDef{},
					Tests: map[string]*TDef{"TestA": {Execs: execs(body)}, "TestB": {Execs: execs(other)}}})
				sc.Note = fmt.Sprintf("parent skips at the end of its body after subtests that skip (parallel=%v), -count %d, mode %s", par, count, mode)
				out = append(out, sc)
			}
		}
	}
	return out
}

// trimpathClean: Clean in binaries built with -trimpath (the registries hold the relative paths the
// call stack reports), default / relative / absolute Dir: what this run matched is neither listed
// nor deleted, and replays afterwards.
func trimpathClean() []*Scenario {
	var out []*Scenario
	n := 0
	for _, variant := range []string{"trimpath", "envtrimpath", "deep-trimpath", "deep", ""} {
		for _, dirKind := range []string{"", "rel", "abs"} {
			for _, mode := range []string{"default", "clean"} {
				n++
				sc := &Scenario{ID: fmt.Sprintf("tp%d", n), Configs: map[string]*Cfg{}, DefaultLoc: true, WatchRel: []string{"relsnaps"}, Program: []string{"TestA", "TestB"}}
				k := &Cfg{}
				switch dirKind {
				case "rel":
					k.Dir = sp("relsnaps")
				case "abs":
					k.Dir = sp("@/abs/snaps")
				}
				sc.Configs["k"] = k
				tests := func() map[string]*TDef {
					return map[string]*TDef{
						"TestA": {Execs: [][]*Step{{{Op: "match", API: "snapshot", Cfg: "k", Val: strVal("one")}, {Op: "match", API: "ssnap", Cfg: "k", Val: strVal("alone")}}}},
						"TestB": {Execs: [][]*Step{{{Op: "match", API: "json", Cfg: "k", Val: strVal(`{"a":1}`)}}}},
					}
				}
				base := ProcSpec{Variant: variant}
				if variant == "envtrimpath" {
					base = ProcSpec{Env: map[string]string{"GOFLAGS": "-trimpath"}}
				}
				p1 := base
				p2 := base
				if mode == "clean" {
					p2.UpdVar = sp("clean")
				}
				p3 := base
				p3.CI = "CI"
				sc.Procs = append(sc.Procs, &Proc{Spec: p1, Real: true, State: "call", Clean: &CleanDef{}, Tests: tests()})
				sc.Procs = append(sc.Procs, &Proc{Spec: p2, Real: true, State: "call", Clean: &CleanDef{Sort: n%2 == 0}, Tests: tests()})
				sc.Procs = append(sc.Procs, &Proc{Spec: p3, Real: true, State: "call", Clean: &CleanDef{}, Tests: tests()})
				sc.Note = fmt.Sprintf("Clean in a %q build, Dir %q, mode %s: matched snapshots are kept and replay", variant, dirKind, mode)
				out = append(out, sc)
			}
		}
	}
	return out
}

// malformedTail: a used file that ends with an entry lacking its terminator (truncated / badly
// merged), examined BEFORE a file that Clean rewrites: nothing of it may leak into the other file
// (C07: "all pre-existing directory contents").
func malformedTail(sortMode bool, n int) *Scenario {
	sc := &Scenario{ID: fmt.Sprintf("mt%d", n), Configs: stdConfigs(), Program: append([]string{}, topTests...)}
	sc.Init = append(sc.Init,
		InitFile{P: "snaps/custom.snap", Role: "multi", Content: []byte("\n[TestA - 1]\nkept\n---\n\n[TestOld - 1]\nleft over line\nand another")},
		InitFile{P: "snaps/main_test.snap", Role: "multi", Content: []byte("\n[TestB - 2]\ntwo\n---\n\n[TestGone - 1]\nstale\n---\n\n[TestB - 1]\none\n---\n")})
	spec := ProcSpec{}
	if !sortMode {
		spec.UpdVar = sp("clean")
	}
	sc.Procs = append(sc.Procs, &Proc{Spec: spec, Real: true, State: "call", Clean: &CleanDef{Sort: sortMode, Twice: true}, Tests: map[string]*TDef{
		"TestA": {Execs: [][]*Step{{{Op: "match", API: "snapshot", Cfg: "f", Val: strVal("kept")}}}},
		"TestB": {Execs: [][]*Step{{{Op: "match", API: "snapshot", Cfg: "c", Val: strVal("one")}, {Op: "match", API: "snapshot", Cfg: "c", Val: strVal("two")}}}},
	}})
	sc.Procs = append(sc.Procs, &Proc{Spec: procSpec("ci"), Real: true, State: "call", Tests: map[string]*TDef{
		"TestB": {Execs: [][]*Step{{{Op: "match", API: "snapshot", Cfg: "c", Val: strVal("one")}, {Op: "match", API: "snapshot", Cfg: "c", Val: strVal("two")}}}},
	}})
	sc.Note = fmt.Sprintf("a used file with an unterminated last entry is examined before a file Clean rewrites (sort=%v)", sortMode)
	return sc
}
