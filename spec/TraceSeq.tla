------------------------------ MODULE TraceSeq ------------------------------
(***************************************************************************)
(* Trace specification for sequential histories (DESIGN.md §4.4).           *)
(*                                                                          *)
(* The trace (ndjson, one record per event) was recorded from the REAL code *)
(* by the scripted driver and abstracted by the orchestrator: file bytes    *)
(* are split into lines, unprintable or long lines travel as tokens.  Each  *)
(* trace action is  IsEvent(kind) /\ <contract action with the logged       *)
(* arguments> /\ <comparison of what the contract derives with what was     *)
(* logged>.  Unlogged state (ordinals, counters, which slot a call          *)
(* addresses, where a file must appear) is COMPUTED by the contract from    *)
(* the history; the refinement mapping from file lines to slots is          *)
(* SnapFile!Parse, evaluated here by TLC.                                   *)
(*                                                                          *)
(* Divergences do not disable actions: they are appended to `bad` and the   *)
(* rest of the trace is still checked; `Finish` writes them out as JSON.    *)
(* Impl-shaped predictions (SnapFile!ReadEntry/AppendEntry/RewriteEntry/    *)
(* CleanFile) are compared too and reported as drift, not as violations.    *)
(***************************************************************************)
EXTENDS Contract, SnapFile, Json, IOUtils

Trace   == ndJsonDeserialize("trace.ndjson")
OutFile == "result.json"


VARIABLES
  l,        \* position in Trace
  bad,      \* mismatch records found so far
  drift,    \* impl-shaped model disagreements
  fs,       \* last projected directory state: [path -> file record]
  pfs,      \* reference parse of every file of fs: [path -> Parse result]
  hid,      \* id of the current history
  tainted,  \* "" | "known" | "unknown": a mismatch was already found in this history; its root
            \* carried a known-finding signature (cascades are dropped) or not (cascades are
            \* reported, flagged casc, because they are consequences a user would see)
  program,  \* test names the scenario's program contains
  owner,    \* [standalone path -> test that owns it]
  stats,    \* counters of what was actually checked (evidence / vacuity)
  done

vars == <<cvars, l, bad, drift, fs, pfs, hid, tainted, program, owner, stats, done>>

E == Trace[l]
IsEvent(k) == l <= Len(Trace) /\ Trace[l].ev = k /\ l' = l + 1

SeqToSet(s) == {s[i] : i \in DOMAIN s}
\* TLCEval forces the function to be built once; TLC otherwise re-evaluates the body of a
\* function constructor at every application.
FsOf(seq)   == TLCEval([p \in {seq[i].p : i \in DOMAIN seq} |->
                  LET i == CHOOSE i \in DOMAIN seq : seq[i].p = p IN seq[i]])
FileOf(f, p) == IF p \in DOMAIN f THEN [lines |-> f[p].lines, nl |-> f[p].nl] ELSE EmptyFile
IsFile(f, p) == p \in DOMAIN f /\ f[p].kind = "file"

(***************************************************************************)
(* Constant-level preprocessing of the trace, evaluated ONCE by TLC when    *)
(* the specification is loaded (definitions inside actions are re-evaluated *)
(* at every reference): the projected directory of every event as a         *)
(* function, and the reference parse of every file in it.                   *)
(***************************************************************************)
FS == TLCEval([i \in DOMAIN Trace |->
         IF "fs" \in DOMAIN Trace[i] THEN FsOf(Trace[i].fs) ELSE <<>>])
PARSED == TLCEval([i \in DOMAIN Trace |->
         TLCEval([p \in {q \in DOMAIN FS[i] : FS[i][q].kind = "file"} |-> Parse(FileOf(FS[i], p))])])
EmptyParse == Parse(EmptyFile)
PF(pm, p) == IF p \in DOMAIN pm THEN pm[p] ELSE EmptyParse

\* strings.Split(content, "\n") from the (lines, nl) representation
VL(file) == IF file.lines = <<>> /\ ~file.nl THEN <<"">>
            ELSE IF file.nl THEN Append(file.lines, "") ELSE file.lines

DirName(p) ==
  LET idx == {i \in 1..Len(p) : Char(p, i) = "/"}
  IN  IF idx = {} THEN "" ELSE SubSeq(p, 1, (CHOOSE i \in idx : \A j \in idx : j <= i) - 1)
BaseName(p) == SubSeq(p, Len(DirName(p)) + 2, Len(p))

MM(check, exp, got, st, path, hdr, info) ==
  [h |-> hid, l |-> l, check |-> check, exp |-> exp, got |-> got, st |-> st,
   path |-> path, hdr |-> hdr, info |-> info, sig |-> "", casc |-> FALSE]

\* how mismatches of one event enter `bad`, and how the taint evolves
Report(all) ==
  IF tainted = "known" THEN bad
  ELSE IF tainted = "unknown" THEN bad \o [i \in DOMAIN all |-> [all[i] EXCEPT !.casc = TRUE]]
  ELSE bad \o all
Taint(all) ==
  IF tainted # "" \/ all = <<>> THEN tainted
  ELSE IF \E i \in DOMAIN all : all[i].sig # "" THEN "known" ELSE "unknown"

\* tag mismatch records with the known-finding signatures that hold at this event
WithSig(mms, sig) == [i \in DOMAIN mms |-> [mms[i] EXCEPT !.sig = sig]]

Bump(k) == [stats EXCEPT ![k] = @ + 1]

\* files that differ between two projections (content, existence) or were written
Changed(f0, f1) ==
  {p \in DOMAIN f0 \cup DOMAIN f1 :
     \/ p \notin DOMAIN f0 \/ p \notin DOMAIN f1
     \/ f0[p].kind # f1[p].kind
     \/ f0[p].lines # f1[p].lines \/ f0[p].nl # f1[p].nl
     \/ f1[p].touched}

(***************************************************************************)
(* History reset: contract state is the reference parse of the initial      *)
(* directory (kinds given by the generator that wrote it).                  *)
(***************************************************************************)
InitSlots(pm, multis) ==
  LET pairs == UNION {{<<p, h>> : h \in PF(pm, p).hs} : p \in multis}
  IN  [k \in pairs |-> [vl |-> Unescape(BodyOf(PF(pm, k[1]), k[2])), vid |-> "", known |-> TRUE, inj |-> FALSE]]

TraceReset ==
  /\ IsEvent("reset")
  /\ LET f == FS[l]
         multis == {p \in DOMAIN f : f[p].role = "multi"}
         alones == {p \in DOMAIN f : f[p].role = "alone"}
     IN  /\ fs' = f /\ pfs' = PARSED[l]
         /\ slot' = InitSlots(PARSED[l], multis)
         /\ order' = [p \in multis |-> PF(PARSED[l], p).order]
         /\ alone' = [p \in alones |-> [vl |-> VL(FileOf(f, p)), vid |-> "", known |-> TRUE, inj |-> FALSE]]
         /\ owner' = [p \in {q \in alones : f[q].owner # ""} |-> f[p].owner]
  /\ hid' = E.h /\ tainted' = ""
  /\ program' = SeqToSet(E.program)
  /\ mode' = [ci |-> FALSE, updvar |-> "unset", count |-> 1, run |-> ""]
  /\ ord' = <<>> /\ sord' = <<>> /\ sused' = <<>> /\ addrM' = {} /\ addrS' = {}
  /\ usedF' = {} /\ visitedD' = {} /\ alias' = <<>>
  /\ cnt' = ZeroCnt /\ nskip' = 0 /\ ran' = {} /\ skipSet' = {} /\ fmtOf' = <<>>
  /\ stats' = Bump("histories")
  /\ UNCHANGED <<bad, drift, done>>

TraceProc ==
  /\ IsEvent("proc")
  /\ CStart([ci |-> E.ci, updvar |-> E.updvar, count |-> E.count, run |-> E.run])
  /\ UNCHANGED <<bad, drift, fs, pfs, hid, tainted, program, owner, stats, done>>

TraceBegin ==
  /\ IsEvent("begin") /\ CBegin(E.t)
  /\ UNCHANGED <<bad, drift, fs, pfs, hid, tainted, program, owner, stats, done>>

\* cleanups must not write
TraceEnd ==
  /\ IsEvent("end")
  /\ IF E.hasfs /\ E.resync
     THEN CEndWith(E.t, [p \in DOMAIN order |->
                          LET pr == PF(PARSED[l], p) IN
                          IF IsFile(FS[l], p) /\ pr.wellformed /\ pr.hs = {order[p][i] : i \in DOMAIN order[p]}
                          THEN pr.order ELSE order[p]])
     ELSE CEnd(E.t)
  /\ IF E.hasfs
     THEN LET f1 == FS[l] ch == Changed(fs, f1) IN
          /\ fs' = f1 /\ pfs' = PARSED[l]
          \* resync: parallel subtests of this test ran since the last observation (no directory is
          \* captured between parallel siblings); what they wrote is read here, not judged
          /\ LET all == IF ch # {} /\ ~E.resync THEN <<MM("end.wrote", "", "", "", CHOOSE p \in ch : TRUE, "", "")>> ELSE <<>> IN
             /\ bad' = Report(all)
             /\ tainted' = Taint(all)
     ELSE UNCHANGED <<fs, pfs, bad, tainted>>
  /\ UNCHANGED <<drift, hid, program, owner, stats, done>>

\* snaps.Skip*: exactly one "skipped" log, no error, nothing written
TraceSkip ==
  /\ IsEvent("skip") /\ CSkip(E.t)
  /\ LET all == IF E.nerr # 0 \/ E.nlog # 1 \/ E.logk # "skipped"
                THEN <<MM("skip.signal", "skipped", E.logk, "", "", "", ToString(E.nerr))>> ELSE <<>> IN
     /\ bad' = Report(all)
     /\ tainted' = Taint(all)
  /\ stats' = Bump("skips")
  /\ UNCHANGED <<drift, fs, pfs, hid, program, owner, done>>

\* MatchSnapshot(t) without values: a warning log only; no ordinal, no outcome, no write
TraceNoArgs ==
  /\ IsEvent("noargs")
  /\ LET f1 == IF E.hasfs THEN FS[l] ELSE fs
         ch == Changed(fs, f1)
         ok == E.nerr = 0 /\ E.nlog = 1 /\ ch = {} IN
     /\ fs' = f1 /\ pfs' = IF E.hasfs THEN PARSED[l] ELSE pfs
     /\ LET all == IF ~ok THEN <<MM("noargs", "warning", E.logk, "", "", "", ToString(E.nerr))>> ELSE <<>> IN
        /\ bad' = Report(all)
        /\ tainted' = Taint(all)
  /\ UNCHANGED <<cvars, drift, hid, program, owner, stats, done>>

(***************************************************************************)
(* Match*                                                                   *)
(***************************************************************************)
Observed(e) ==
  CASE e.nerr = 0 /\ e.nlog = 0                      -> "passed"
    [] e.nerr = 0 /\ e.nlog = 1 /\ e.logk = "added"   -> "added"
    [] e.nerr = 0 /\ e.nlog = 1 /\ e.logk = "updated" -> "updated"
    [] e.nerr = 1 /\ e.nlog = 0                      -> "failed"
    [] OTHER                                         -> "malformed"

CallOf(e) ==
  [api |-> e.api, cfg |-> e.cfg, tdir |-> e.tdir, tbase |-> e.tbase, test |-> e.t, upd |-> e.upd,
   val |-> [vl |-> e.vl, vid |-> e.vid, known |-> e.known, inj |-> e.inj], invalid |-> e.invalid, mfail |-> e.mfail]

\* entries the contract expects in multi-entry file p, as stored lines
ExpectedBody(v) == Escape(v.vl)
\* The stored lines are the value's lines; a line equal to the terminator must be stored as
\* something else (WHICH token is the implementation's choice, replay decides whether it works).
BodyOK(body, v) ==
  \/ body = Escape(v.vl)
  \/ /\ Len(body) = Len(v.vl)
     /\ \A i \in DOMAIN body : body[i] = v.vl[i] \/ (v.vl[i] = END /\ body[i] # END)

\* compare one multi-entry file with the contract's slots for it
FileMismatches(pr, p, sl, od, target) ==
  LET hs   == {k[2] : k \in {k \in DOMAIN sl : k[1] = p}}
      fhs  == pr.hs
  IN  (IF ~pr.wellformed THEN <<MM("file.malformed", "", "", "", p, "", "")>> ELSE <<>>)
   \o SetToSeq({MM("entry.missing", "", "", "", p, h, IF h = target THEN "target" ELSE "other") : h \in hs \ fhs})
   \o SetToSeq({MM("entry.extra", "", "", "", p, h, IF h = target THEN "target" ELSE "other") : h \in fhs \ hs})
   \o SetToSeq({MM("entry.value", "", "", "", p, h, IF h = target THEN "target" ELSE "other") :
                 h \in {h \in hs \cap fhs : sl[<<p, h>>].known /\ ~BodyOK(BodyOf(pr, h), sl[<<p, h>>])}})
   \o (IF pr.wellformed /\ hs = fhs /\ pr.order # Get(od, p, <<>>)
       THEN <<MM("entry.order", "", "", "", p, "", "")>> ELSE <<>>)

\* what the implementation-shaped model predicts for the file after the call
ImplPredict(f0, c, out, hdr, p) ==
  LET file == FileOf(f0, p)
      stored == IF c.api \in {"json"} THEN c.val.vl ELSE Escape(c.val.vl)
  IN  CASE out = "added"   -> AppendEntry(file, hdr, stored)
        [] out = "updated" -> RewriteEntry(file, hdr, stored)
        [] OTHER           -> file

TraceMatch ==
  /\ IsEvent("match")
  /\ LET c    == CallOf(E)
         exp  == COutcome(c)
         st   == EntryState(c)
         got  == Observed(E)
         \* outcome the contract continues with
         eff  == IF got = "malformed" THEN (IF exp = "any" THEN "failed" ELSE exp)
                 ELSE IF exp = "any" \/ exp = got THEN got ELSE exp
         sa   == Standalone(c)
         f1   == IF E.hasfs THEN FS[l] ELSE fs
         ch   == Changed(fs, f1)
         \* K8: `%` in a path component of a standalone call; the ordinal substitution mangles the
         \* name.  The contract then follows the one file the call wrote (see Contract!alias).
         k8   == sa /\ (StrContains(c.test, "%") \/ StrContains(c.cfg.dir, "%") \/ StrContains(c.cfg.filename, "%"))
         wrote == {q \in ch : q \in DOMAIN f1 /\ f1[q].kind = "file"}
         p0   == IF sa THEN CallSPath(c) ELSE CallPath(c)
         moved == k8 /\ E.hasfs /\ Cardinality(wrote) = 1 /\ p0 \notin wrote
         p    == IF moved THEN CHOOSE q \in wrote : TRUE ELSE p0
         hdr  == IF sa THEN "" ELSE CallHdr(c)
         pm1  == IF E.hasfs THEN PARSED[l] ELSE pfs
         seen == IF sa THEN (IF IsFile(f1, p) THEN VL(FileOf(f1, p)) ELSE <<>>)
                 ELSE LET pr == PF(pm1, p) IN
                      IF hdr \in pr.hs THEN Unescape(BodyOf(pr, hdr)) ELSE <<>>
         outMM == IF E.panic
                  THEN <<MM("call.panicked", exp, "panic", st, p, hdr, "")>>
                  ELSE IF got = "malformed"
                  THEN <<MM("outcome.malformed", exp, E.logk, st, p, hdr, ToString(E.nerr) \o "/" \o ToString(E.nlog))>>
                  ELSE IF exp # "any" /\ exp # got
                  THEN <<MM("outcome", exp, got, st, p, hdr,
                            IF c.invalid THEN "invalid" ELSE IF c.mfail # <<>> THEN "mfail" ELSE "")>>
                  ELSE <<>>
         \* failing matchers must all be named in the single error
         nameMM == IF c.mfail # <<>> /\ got = "failed" /\
                      \E i \in DOMAIN c.mfail : ~\E j \in DOMAIN E.errm : E.errm[j] = c.mfail[i]
                   THEN <<MM("matcher.unnamed", "", "", st, p, hdr, "")>> ELSE <<>>
         \* learned text must be stable: the same value identity always stores the same lines
         \* C14: what was just stored parses to the same JSON value as the input
         lossMM == (IF E.lossless = "no" THEN <<MM("json.lossy", "", "", st, p, hdr, "")>> ELSE <<>>)
                   \* C15: what was stored is the input with exactly the targeted values replaced
                   \o (IF E.docok = "no" THEN <<MM("doc.mismatch", "", "", st, p, hdr, "")>> ELSE <<>>)
                   \* C15: the bytes the caller passed in are never modified
                   \o (IF ~E.bufsame THEN <<MM("buf.modified", "", "", st, p, hdr, "")>> ELSE <<>>)
         detMM == IF ~c.val.known /\ c.val.vid \in DOMAIN fmtOf /\ Writes(eff) /\ E.hasfs
                     /\ seen # fmtOf[c.val.vid]
                  THEN <<MM("format.unstable", "", "", st, p, hdr, c.val.vid)>> ELSE <<>>
     IN
     /\ CMatchAtL(c, eff, seen, IF sa THEN p ELSE CallSPath(c), E.hasfs)
     /\ fs' = f1 /\ pfs' = pm1
     /\ owner' = IF sa /\ Writes(eff) THEN Put(owner, p, c.test) ELSE owner
     /\ LET fsMM ==
              IF ~E.hasfs THEN <<>>
              ELSE IF ~Writes(eff)
              THEN (IF ch # {} THEN <<MM("nowrite", exp, got, st, CHOOSE q \in ch : TRUE, hdr,
                                         IF p \in ch THEN "target" ELSE "other")>> ELSE <<>>)
              ELSE (LET parents == {q \in DOMAIN f1 : f1[q].kind = "dir" /\ HasPrefix(p, q \o "/")}
                        els == ch \ ({p} \cup parents) IN
                    IF els # {}
                    THEN <<MM("write.elsewhere", exp, got, st, CHOOSE q \in els : TRUE, hdr, p)>>
                    ELSE <<>>)
                \o (IF sa
                    THEN (IF ~IsFile(f1, p) THEN <<MM("alone.missing", "", "", st, p, "", "")>>
                          ELSE IF c.val.known /\ VL(FileOf(f1, p)) # c.val.vl
                          THEN <<MM("alone.value", "", "", st, p, "", "")>> ELSE <<>>)
                    ELSE FileMismatches(PF(pm1, p), p, slot', order', hdr))
            \* signatures of known findings, evaluated on this very event (DESIGN.md 7.3)
            adr  == Addressed(c)
            k1   == adr[1] /\ adr[2].known /\ c.val.known /\ Len(adr[2].vl) = Len(c.val.vl)
                    /\ adr[2].vl # c.val.vl
                    /\ \A i \in DOMAIN c.val.vl : adr[2].vl[i] = c.val.vl[i]
                                                  \/ {adr[2].vl[i], c.val.vl[i]} = {END, ESC}
            pre  == PF(pfs, p)
            k2   == ~sa /\ \E i \in DOMAIN pre.entries : \E j \in DOMAIN pre.entries[i].b :
                              pre.entries[i].b[j] = hdr
            sigs == (IF k1 THEN "K1 " ELSE "") \o (IF k2 THEN "K2 " ELSE "")
            all == WithSig(outMM \o nameMM \o detMM \o lossMM \o fsMM, sigs)
            \* the K8 divergence itself: reported (known finding), never a taint
            locMM == IF moved THEN WithSig(<<MM("alone.location", p0, p, st, p, "", "")>>, "K8 ") ELSE <<>>
            pred == ImplPredict(fs, c, eff, hdr, p)
        IN /\ bad' = Report(all) \o (IF tainted = "" THEN locMM ELSE <<>>)
           /\ tainted' = Taint(all)
           /\ drift' = IF E.hasfs /\ ~sa /\ all = <<>> /\ tainted = "" /\ c.val.known
                          /\ (pred.lines # FileOf(f1, p).lines \/ (Writes(eff) /\ pred.nl # FileOf(f1, p).nl))
                       THEN Append(drift, [h |-> hid, l |-> l, action |-> "Match." \o eff, path |-> p])
                       ELSE drift
     /\ stats' = [stats EXCEPT !["calls"] = @ + 1,
                               ![IF exp = "any" THEN "any" ELSE exp] = @ + 1,
                               !["state_checked"] = @ + (IF E.hasfs THEN 1 ELSE 0)]
  /\ UNCHANGED <<hid, program, done>>

(***************************************************************************)
(* Clean                                                                    *)
(***************************************************************************)
\* number of times x occurs in sequence s
CountIn(s, x) == Cardinality({i \in DOMAIN s : s[i] = x})

TraceClean ==
  /\ IsEvent("clean")
  /\ LET f0 == fs
         f1 == FS[l]
         del == Deleting
         srt == CleanSorts(mode.ci, E.sort)
         sum == E.sum
         chg == Changed(f0, f1)
         usedM == usedF
         visited == visitedD
         \* ---- entries of multi-entry files, parsed once per file and state
         mfiles == usedM \cup {p \in DOMAIN order : p \in DOMAIN f0}
         PP0 == [p \in mfiles |-> PF(pfs, p)]
         PP1 == [p \in mfiles |-> PF(PARSED[l], p)]
         EE0 == [p \in mfiles |-> PF(pfs, p).hs]
         EE1 == [p \in mfiles |-> PF(PARSED[l], p).hs]
         EntriesOf(f, p) == IF f = f0 THEN EE0[p] ELSE EE1[p]
         IsAddr(p, h) == <<p, h>> \in addrM
         Prot(h) == Protected(NameOfId(IdOfHeader(h)), program)
         Why(test) == IF SkipProtected(test) THEN "skip" ELSE IF FilteredOut(test, program) THEN "run" ELSE ""
         WhyH(h) == Why(NameOfId(IdOfHeader(h)))
         MayL  == [p \in usedM |-> {h \in EE0[p] : ~IsAddr(p, h) /\ ~Prot(h)}]
         MustL == [p \in usedM |-> IF mode.run # "" THEN {} ELSE MayL[p]]
         MustList(p) == MustL[p]
         MayList(p)  == MayL[p]
         ids == {IdOfHeader(h) : h \in UNION {EE0[p] : p \in usedM}} \cup SeqToSet(sum.tests)
         MustIds == [p \in usedM |-> {IdOfHeader(h) : h \in MustList(p)}]
         MayIds  == [p \in usedM |-> {IdOfHeader(h) : h \in MayList(p)}]
         ReqL(id) == Cardinality({p \in usedM : id \in MustIds[p]})
         MaxL(id) == Cardinality({p \in usedM : id \in MayIds[p]})
         \* listing is judged only when every used file is a sequence of frames (premise of C09);
         \* what Clean does to the frames of a malformed file is still judged per entry below
         allWF == \A p \in usedM : PP0[p].wellformed
         listMM == IF ~allWF THEN <<>> ELSE
           SetToSeq({MM("clean.entry.unlisted", ToString(ReqL(id)), ToString(CountIn(sum.tests, id)), "", "", id, "")
                      : id \in {id \in ids : CountIn(sum.tests, id) < ReqL(id)}})
           \o SetToSeq({MM("clean.entry.overlisted", ToString(MaxL(id)), ToString(CountIn(sum.tests, id)), Why(NameOfId(id)), "", id,
                           IF \E p \in usedM : \E h \in EE0[p] : IdOfHeader(h) = id /\ IsAddr(p, h)
                           THEN "addressed"
                           ELSE IF \E p \in usedM : \E h \in EE0[p] : IdOfHeader(h) = id /\ Prot(h)
                           THEN "protected" ELSE "absent")
                      : id \in {id \in ids : CountIn(sum.tests, id) > MaxL(id)}})
         \* ---- post state of used files
         FileMM(p) ==
           LET p0 == PP0[p]  p1 == PP1[p]
               e0 == EE0[p]  e1 == EE1[p]
               removed == e0 \ e1
               listedH == {h \in e0 : CountIn(sum.tests, IdOfHeader(h)) > 0}
               touched == p \in chg
               survivorsOrder0 == SelectSeq(p0.order, LAMBDA h : h \in e1)
               sorted0 == IsNaturallySorted([i \in DOMAIN p0.order |-> IdOfHeader(p0.order[i])])
           IN  (IF IsFile(f0, p) /\ ~IsFile(f1, p) THEN <<MM("clean.file.removed", "", "", "", p, "", "used")>> ELSE <<>>)
            \o SetToSeq({MM("clean.entry.removed", "", "", WhyH(h), p, h,
                            IF IsAddr(p, h) THEN "addressed" ELSE IF Prot(h) THEN "protected"
                            ELSE IF ~del THEN "nodelete" ELSE "unlisted")
                         : h \in {h \in removed : IsAddr(p, h) \/ Prot(h) \/ ~del \/ h \notin listedH}})
            \o SetToSeq({MM("clean.entry.kept", "", "", "", p, h, "") :
                          h \in {h \in e0 \cap e1 : p0.wellformed /\ del /\ h \in MayList(p) /\ h \in listedH}})
            \o SetToSeq({MM("clean.entry.added", "", "", "", p, h, "") : h \in {h \in e1 \ e0 : p0.wellformed}})
            \o SetToSeq({MM("clean.entry.value", "", "", WhyH(h), p, h,
                            IF IsAddr(p, h) THEN "addressed" ELSE IF Prot(h) THEN "protected" ELSE "other")
                         : h \in {h \in e0 \cap e1 : BodyOf(p0, h) # BodyOf(p1, h)}})
            \o (IF IsFile(f1, p) /\ p0.wellformed /\ ~p1.wellformed THEN <<MM("clean.file.malformed", "", "", "", p, "", "")>> ELSE <<>>)
            \o (IF srt /\ p0.wellformed /\ p1.wellformed /\ e1 \subseteq e0
                   /\ ~IsNaturallySorted([i \in DOMAIN p1.order |-> IdOfHeader(p1.order[i])])
                THEN <<MM("clean.unsorted", "", "", "", p, "", "")>> ELSE <<>>)
            \o (IF ~srt /\ p0.wellformed /\ p1.wellformed /\ e1 \subseteq e0 /\ p1.order # survivorsOrder0
                THEN <<MM("clean.reordered", "", "", "", p, "", "")>> ELSE <<>>)
            \o (IF touched /\ p0.wellformed /\ removed = {} /\ (~srt \/ sorted0) /\ e1 = e0
                THEN <<MM("clean.needless_write", "", "", "", p, "", IF mode.ci THEN "ci" ELSE "")>> ELSE <<>>)
         \* ---- other files directly inside visited directories
         cands == {p \in DOMAIN f0 : f0[p].kind = "file" /\ f0[p].dir \in visited
                                     /\ StrContains(f0[p].base, ".snap") /\ p \notin usedM /\ p \notin addrS}
         FProt(p) ==
           \/ (p \in DOMAIN owner /\ Protected(owner[p], program))
           \/ (p \in DOMAIN order /\ \E h \in EE0[p] : Prot(h))
         FWhy(p) ==
           IF p \in DOMAIN owner /\ Protected(owner[p], program) THEN Why(owner[p])
           ELSE IF p \in DOMAIN order /\ \E h \in EE0[p] : SkipProtected(NameOfId(IdOfHeader(h))) THEN "skip"
           ELSE IF p \in DOMAIN order /\ \E h \in EE0[p] : Prot(h) THEN "run" ELSE ""
         listedF == SeqToSet(sum.files)
         candMM ==
           SetToSeq({MM("clean.file.unlisted", "", "", "", p, "", "") :
                      p \in {p \in cands : mode.run = "" /\ ~FProt(p) /\ p \notin listedF}})
           \o SetToSeq({MM("clean.file.overlisted", "", "", IF p \in cands THEN FWhy(p) ELSE "", p, "",
                           IF p \in usedM \cup addrS THEN "addressed"
                           ELSE IF p \in cands /\ FProt(p) THEN "protected" ELSE "foreign")
                        : p \in {p \in listedF : p \notin cands \/ FProt(p)}})
           \o SetToSeq({MM("clean.file.removed", "", "", FWhy(p), p, "",
                           IF FProt(p) THEN "protected" ELSE IF ~del THEN "nodelete" ELSE "unlisted")
                        : p \in {p \in cands : ~IsFile(f1, p) /\ (FProt(p) \/ ~del \/ p \notin listedF)}})
           \o SetToSeq({MM("clean.file.kept", "", "", "", p, "", "") :
                          p \in {p \in cands : IsFile(f1, p) /\ del /\ p \in listedF /\ ~FProt(p)}})
           \o SetToSeq({MM("clean.file.modified", "", "", "", p, "", "") :
                          p \in {p \in cands : IsFile(f1, p) /\ p \in chg}})
         \* ---- everything else must be untouched; addressed standalone files keep their bytes
         rest == (DOMAIN f0 \cup DOMAIN f1) \ (usedM \cup cands)
         restMM == SetToSeq({MM("clean.touched", "", "", "", p, "",
                                IF p \in addrS THEN "addressed" ELSE "foreign")
                             : p \in rest \cap chg})
         \* ---- CI: nothing at all may change
         ciMM == IF mode.ci /\ chg # {}
                 THEN <<MM("clean.ci_wrote", "", "", "", CHOOSE p \in chg : TRUE, "", "")>> ELSE <<>>
         \* ---- summary totals
         totMM ==
           (IF sum.passed # cnt.passed THEN <<MM("summary.total", ToString(cnt.passed), ToString(sum.passed), "", "", "", "passed")>> ELSE <<>>)
           \o (IF sum.failed # cnt.failed THEN <<MM("summary.total", ToString(cnt.failed), ToString(sum.failed), "", "", "", "failed")>> ELSE <<>>)
           \o (IF sum.added # cnt.added THEN <<MM("summary.total", ToString(cnt.added), ToString(sum.added), "", "", "", "added")>> ELSE <<>>)
           \o (IF sum.updated # cnt.updated THEN <<MM("summary.total", ToString(cnt.updated), ToString(sum.updated), "", "", "", "updated")>> ELSE <<>>)
           \o (IF sum.skipped # nskip THEN <<MM("summary.total", ToString(nskip), ToString(sum.skipped), "", "", "", "skipped")>> ELSE <<>>)
           \o (IF sum.nfiles # Len(sum.files) \/ sum.ntests # Len(sum.tests)
               THEN <<MM("summary.listcount", "", "", "", "", "", "")>> ELSE <<>>)
           \o (IF (Len(sum.files) + Len(sum.tests) > 0) /\ sum.removed # del
               THEN <<MM("summary.action", IF del THEN "removed" ELSE "obsolete", "", "", "", "", "")>> ELSE <<>>)
         raw == listMM \o FlattenSeq([i \in 1..Len(SetToSeq(usedM)) |-> FileMM(SetToSeq(usedM)[i])])
                \o candMM \o restMM \o ciMM \o totMM
         \* K6: the affected entry's header is not one Clean recognises ("[Test... - <digits>]")
         all == [i \in DOMAIN raw |->
                   IF raw[i].hdr # "" /\ Char(raw[i].hdr, 1) = "[" /\ ~IsCleanHeader(raw[i].hdr)
                   THEN [raw[i] EXCEPT !.sig = "K6 "] ELSE raw[i]]
     IN
     /\ fs' = f1 /\ pfs' = PARSED[l]
     /\ bad' = Report(all)
     /\ tainted' = Taint(all)
     /\ stats' = [stats EXCEPT !["cleans"] = @ + 1,
                               !["clean_stale_entries"] = @ + Cardinality(UNION {MayList(p) : p \in usedM}),
                               !["clean_stale_files"] = @ + Cardinality({p \in cands : ~FProt(p)}),
                               !["cleans_with_protected"] = @ + (IF {p \in cands : FProt(p)} # {} \/
                                    UNION {{h \in EE0[p] : ~IsAddr(p, h) /\ Prot(h)} : p \in usedM} # {} THEN 1 ELSE 0),
                               !["cleans_with_stale"] = @ + (IF {p \in cands : ~FProt(p)} # {} \/
                                    UNION {MayList(p) : p \in usedM} # {} THEN 1 ELSE 0),
                               !["clean_protected"] = @ + Cardinality({p \in cands : FProt(p)})
                                    + Cardinality(UNION {{h \in EE0[p] : ~IsAddr(p, h) /\ Prot(h)} : p \in usedM})]
  /\ UNCHANGED <<cvars, drift, hid, program, owner, done>>

Finish ==
  /\ l = Len(Trace) + 1 /\ ~done
  /\ done' = TRUE
  /\ JsonSerialize(OutFile, [bad |-> bad, drift |-> drift, stats |-> stats, events |-> Len(Trace)])
  /\ UNCHANGED <<cvars, l, bad, drift, fs, pfs, hid, tainted, program, owner, stats>>

TraceInit ==
  /\ l = 1 /\ bad = <<>> /\ drift = <<>> /\ fs = <<>> /\ pfs = <<>> /\ hid = "" /\ tainted = ""
  /\ program = {} /\ owner = <<>> /\ done = FALSE
  /\ stats = [histories |-> 0, calls |-> 0, passed |-> 0, failed |-> 0, added |-> 0, updated |-> 0,
              any |-> 0, state_checked |-> 0, skips |-> 0, cleans |-> 0,
              clean_stale_entries |-> 0, clean_stale_files |-> 0, clean_protected |-> 0,
              cleans_with_protected |-> 0, cleans_with_stale |-> 0]
  /\ mode = [ci |-> FALSE, updvar |-> "unset", count |-> 1, run |-> ""]
  /\ slot = <<>> /\ order = <<>> /\ alone = <<>> /\ ord = <<>> /\ sord = <<>> /\ sused = <<>>
  /\ addrM = {} /\ addrS = {} /\ usedF = {} /\ visitedD = {} /\ alias = <<>> /\ cnt = ZeroCnt /\ nskip = 0 /\ ran = {} /\ skipSet = {} /\ fmtOf = <<>>

TraceNext ==
  \/ TraceReset \/ TraceProc \/ TraceBegin \/ TraceEnd \/ TraceSkip \/ TraceNoArgs
  \/ TraceMatch \/ TraceClean \/ Finish

TraceSpec == TraceInit /\ [][TraceNext]_vars

\* every line of the trace was consumed and the result file was written
TraceAccepted == TLCGet("stats").diameter = Len(Trace) + 2
=============================================================================
