------------------------------ MODULE MC_Mode -------------------------------
(***************************************************************************)
(* C05: the write-permission table, enumerated exhaustively.  Every cell    *)
(*   ci x Update option x UPDATE_SNAPS x API x entry state x sort x obsolete*)
(* is one state; TLC checks the statement of C05 on the table (Mode!TableOK *)
(* and CellOK) and prints each cell with what the contract expects, which   *)
(* the orchestrator executes as one real process per cell.                  *)
(***************************************************************************)
EXTENDS Mode, Json, TLC, Sequences

CIs      == {"off", "CI", "GITHUB_ACTIONS", "CI=false", "BUILD_NUMBER"}   \* BUILD_NUMBER: a generic marker, no vendor recognised
APIs     == {"snapshot", "json", "yaml", "ssnap", "sjson"}
States   == {"missing", "equal", "different"}
\* concrete spellings of UPDATE_SNAPS and the class each belongs to
UpdSpell == {"<unset>", "true", "clean", "TRUE", "1", "yes", "false", ""}
ClassOf(s) == CASE s = "<unset>" -> "unset" [] s = "true" -> "true" [] s = "clean" -> "clean" [] OTHER -> "other"
IsCI(c) == c \in {"CI", "GITHUB_ACTIONS", "BUILD_NUMBER"}

VARIABLES cell, emitted
vars == <<cell, emitted>>

Cells == [ci : CIs, upd : UpdOpts, updvar : UpdSpell, api : APIs, st : States, sort : BOOLEAN, obsolete : BOOLEAN]

Expect(c) ==
  [outcome |-> Outcome(IsCI(c.ci), c.upd, ClassOf(c.updvar), c.st),
   deletes |-> CleanDeletes(IsCI(c.ci), ClassOf(c.updvar)) /\ c.obsolete,
   sorts   |-> CleanSorts(IsCI(c.ci), c.sort)]

Init == cell \in Cells /\ emitted = FALSE
Next == /\ ~emitted
        /\ PrintT("@@" \o ToJson([cell |-> cell, expect |-> Expect(cell)]))
        /\ emitted' = TRUE /\ UNCHANGED cell
Spec == Init /\ [][Next]_vars

\* the statement of C05 on every cell
CellOK ==
  LET e == Expect(cell) ci == IsCI(cell.ci) cls == ClassOf(cell.updvar) IN
  /\ ci => (~Writes(e.outcome) /\ ~e.deletes /\ ~e.sorts /\ (cell.st = "missing" => e.outcome = "failed"))
  /\ (~ci /\ cell.upd = "false") => ~Writes(e.outcome)
  /\ (~ci /\ cell.upd = "true" /\ cell.st # "equal") => Writes(e.outcome)
  /\ (~ci /\ cell.upd = "unset" /\ cell.st = "missing") => e.outcome = "added"
  /\ (~ci /\ cell.upd = "unset" /\ cell.st = "different") => ((e.outcome = "updated") <=> (cls = "true"))
  /\ (~ci /\ cell.obsolete) => (e.deletes <=> cls \in {"true", "clean"})
  /\ e.sorts => cell.sort
  /\ cell.st = "equal" => e.outcome = "passed"

TableHolds == TableOK
=============================================================================
