------------------------------ MODULE TraceConc -----------------------------
(***************************************************************************)
(* Trace validation for C06 (DESIGN.md §5.4 step 3): the primitive-level    *)
(* log of every REAL gated execution must be a behaviour of GoSnapsConc     *)
(* with the programs extracted from the same code, and the model's final    *)
(* file and outcomes must be the observed ones.  This checks the            *)
(* hand-written part of the concurrency model -- the semantics of the       *)
(* primitives (RW lock, O_APPEND, truncate / seek / write on a shared       *)
(* handle) and the branch decision -- against the real runtime and OS.      *)
(*                                                                          *)
(* All runs of one configuration (same calls, same initial file) are        *)
(* concatenated; EndRun compares and resets.  Disagreements are written to  *)
(* result.json and reported as MODEL-DRIFT, never as property violations.   *)
(***************************************************************************)
EXTENDS GoSnapsConc, IOUtils

Runs == ndJsonDeserialize("concruns.ndjson")

VARIABLES r, l, bad, done
tvars == <<vars, r, l, bad, done>>

Log == Runs[r].log

TStep ==
  /\ r <= Len(Runs) /\ l <= Len(Log)
  /\ LET e == Log[l] IN
       /\ ~Done(e.g) /\ Cur(e.g) = e.op
       /\ Prim(e.g)
  /\ l' = l + 1 /\ UNCHANGED <<r, bad, done>>

\* a logged primitive the model cannot take: record and skip the rest of this run
TStuck ==
  /\ r <= Len(Runs) /\ l <= Len(Log)
  /\ LET e == Log[l] IN Done(e.g) \/ Cur(e.g) # e.op \/ ~ENABLED Prim(e.g)
  /\ bad' = Append(bad, [run |-> Runs[r].n, at |-> l, what |-> "primitive not enabled in the model",
                         op |-> Log[l].op, g |-> Log[l].g])
  /\ l' = Len(Log) + 2 /\ UNCHANGED <<vars, r, done>>

EndRun ==
  /\ r <= Len(Runs) /\ l >= Len(Log) + 1
  /\ bad' = IF l = Len(Log) + 1 /\ ( file.lines # Runs[r].final.lines
                                     \/ \E g \in Gs : out[g] # Runs[r].outs[g] )
            THEN Append(bad, [run |-> Runs[r].n, at |-> l, what |-> "final file or outcomes differ from the model",
                              op |-> "", g |-> ""])
            ELSE bad
  /\ r' = r + 1 /\ l' = 1
  /\ file' = InitFile /\ exists' = (InitFile.lines # <<>>)
  /\ writer' = "" /\ readers' = [g \in Gs |-> 0] /\ pend' = {}
  /\ pc' = [g \in Gs |-> 1] /\ kind' = [g \in Gs |-> ""]
  /\ seen' = [g \in Gs |-> EmptyFile] /\ scan' = [g \in Gs |-> EmptyFile]
  /\ hmode' = [g \in Gs |-> ""] /\ trunc' = [g \in Gs |-> FALSE] /\ tmp' = [g \in Gs |-> EmptyFile]
  /\ out' = [g \in Gs |-> ""] /\ step' = [g |-> "", op |-> "init"]
  /\ UNCHANGED done

Finish ==
  /\ r = Len(Runs) + 1 /\ ~done
  /\ done' = TRUE
  /\ JsonSerialize("result.json", [bad |-> bad, runs |-> Len(Runs)])
  /\ UNCHANGED <<vars, r, l, bad>>

TInit == Init /\ r = 1 /\ l = 1 /\ bad = <<>> /\ done = FALSE
TNext == TStep \/ TStuck \/ EndRun \/ Finish
TSpec == TInit /\ [][TNext]_tvars
=============================================================================
