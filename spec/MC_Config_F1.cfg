SPECIFICATION Spec
CONSTANTS
  OptSets <- mcOptSets
  MaxLen = 3
  StandaloneJSONDefaultsExtInReceiver = TRUE
  EmitSeqs = FALSE
INVARIANTS ConfigImmutable LocationFromBuiltOptions
CHECK_DEADLOCK FALSE
