SPECIFICATION MSpec
CONSTANTS MaxCalls = 5
          MaxProcs = 4
          Small = FALSE
INVARIANTS P_Shape P_C07 P_C08 P_C09 P_C10 P_Idem P_Exact P_Replay
PROPERTIES A_OnlyCallsWrite A_OnlyCleanRemoves A_CountsGrow
CHECK_DEADLOCK FALSE
