SPECIFICATION Spec
CONSTANTS
  DocSet <- mcDocs
  Matchers <- mcMatchers
  MaxMs = 2
  EmitCases = TRUE
INVARIANTS OnlyTargetsChange FailuresNamed
CHECK_DEADLOCK FALSE
