----------------------------- MODULE MC_Framing -----------------------------
(***************************************************************************)
(* Implementation-shaped model of the multi-entry file at LINE level,       *)
(* carried next to the contract state; TLC checks that the implementation   *)
(* (SnapFile!ReadEntry / AppendEntry / RewriteEntry, the ordinal registry,  *)
(* the mode table) refines the contract for every history within the        *)
(* bounds: C01 (recorded values replay), C02 (changes are reported), C03    *)
(* (addressing and isolation), C04 (update converges, rewrites only what    *)
(* differs), C18 (verbatim text incl. terminator-like lines).               *)
(*                                                                          *)
(* Known findings are signature predicates (K1: END/ESC conflation, K2: a   *)
(* body line equal to the addressed header precedes it); with them excluded *)
(* the invariants hold, with the exclusions lifted TLC returns exactly      *)
(* those counterexamples (MC_Framing_K.cfg).                                *)
(*                                                                          *)
(* The same module generates histories for replay on the real code          *)
(* (Gen_Framing.cfg: history variable + JSON emission inside Next).         *)
(***************************************************************************)
EXTENDS Mode, SnapFile, Json

CONSTANTS
  Tests,      \* test names, e.g. {"TestA", "TestAB"}
  MaxK,       \* calls per execution of a test
  Alphabet,   \* line alphabet (concrete strings)
  MaxBody,    \* lines per value
  MaxOps,     \* length of a history
  Modes,      \* process modes explored: subset of {"create", "ci", "update", "noupd"}
  InitFiles,  \* set of initial files (records [lines, nl])
  ExcludeKnown, \* TRUE: invariants are conditioned on the known-finding signatures
  EmitHist,   \* TRUE: print every maximal history as JSON
  Plan        \* <<>> or the kind of operation allowed at each position ("match","end","proc","any")

VARIABLES
  file,     \* implementation state: the snapshot file
  slot,     \* contract state: [hdr -> value lines]
  order,    \* contract state: order of entries
  ordv,     \* [test -> Nat] running ordinal
  mode,     \* mode of the current process
  nops,
  last,     \* what the last action did (outcome of impl and of contract)
  tainted,  \* a known-finding signature occurred; file and contract may have diverged
  file0,    \* the initial file (only for emission)
  hist

vars == <<file, slot, order, ordv, mode, nops, last, tainted, file0, hist>>

Bodies == UNION {[1..n -> Alphabet] : n \in 1..MaxBody}

CI(m)  == m = "ci"
Upd(m) == IF m = "noupd" THEN "false" ELSE "unset"
UpdVar(m) == IF m = "update" THEN "true" ELSE "unset"

Put(f, k, v) == [x \in DOMAIN f \cup {k} |-> IF x = k THEN v ELSE f[x]]

InitSlot(f) == LET p == Parse(f) IN
  [h \in {p.entries[i].h : i \in DOMAIN p.entries} |-> Unescape(BodyOf(p, h))]

Init ==
  /\ file \in InitFiles
  /\ file0 = file
  /\ slot = InitSlot(file)
  /\ order = Parse(file).order
  /\ ordv = [t \in Tests |-> 0]
  /\ mode = "create"
  /\ nops = 0
  /\ last = [op |-> "init", okOut |-> TRUE, okKeep |-> TRUE]
  /\ tainted = FALSE
  /\ hist = <<>>

(***************************************************************************)
(* MatchSnapshot(t, v) -- v is the value as lines.  Implementation side:    *)
(* getTestID; takeSnapshot (escape); getPrevSnapshot; compare               *)
(* unescape(prev) with unescape(escape(v)); add / update per mode.          *)
(***************************************************************************)
HdrOf(t) == Hdr(t, ordv[t] + 1)

\* implementation: state of the addressed entry as getPrevSnapshot + the comparison see it
ImplState(t, v) ==
  LET r == ReadEntry(file, HdrOf(t)) IN
  IF ~r.found THEN "missing"
  ELSE IF Unescape(r.body) = Unescape(Escape(v)) THEN "equal" ELSE "different"
ImplOut(t, v) == Outcome(CI(mode), Upd(mode), UpdVar(mode), ImplState(t, v))

\* contract: state of the addressed slot
ContractState(t, v) ==
  IF HdrOf(t) \notin DOMAIN slot THEN "missing"
  ELSE IF slot[HdrOf(t)] = v THEN "equal" ELSE "different"
ContractOut(t, v) == Outcome(CI(mode), Upd(mode), UpdVar(mode), ContractState(t, v))

\* known-finding signatures evaluated on the call
K1(t, v) == LET h == HdrOf(t) IN
  /\ h \in DOMAIN slot /\ slot[h] # v /\ Len(slot[h]) = Len(v)
  /\ \A i \in DOMAIN v : slot[h][i] = v[i] \/ {slot[h][i], v[i]} = {END, ESC}
K2(t) == LET pr == Parse(file) IN
  \E i \in DOMAIN pr.entries : \E j \in DOMAIN pr.entries[i].b : pr.entries[i].b[j] = HdrOf(t)

Match(t, v) ==
  /\ nops < MaxOps /\ ordv[t] < MaxK
  /\ LET h    == HdrOf(t)
         out  == ImplOut(t, v)
         cout == ContractOut(t, v)
     IN
     /\ ordv' = [ordv EXCEPT ![t] = @ + 1]
     /\ file' = CASE out = "added"   -> AppendEntry(file, h, Escape(v))
                  [] out = "updated" -> RewriteEntry(file, h, Escape(v))
                  [] OTHER           -> file
     /\ slot' = IF Writes(cout) THEN Put(slot, h, v) ELSE slot
     /\ order' = IF cout = "added" THEN Append(order, h) ELSE order
     /\ tainted' = (tainted \/ K1(t, v) \/ K2(t))
     /\ hist' = IF EmitHist THEN Append(hist, [op |-> "match", t |-> t, v |-> v]) ELSE hist
     \* per-call verdicts, evaluated once per transition and judged by the invariants below
     /\ last' = [op |-> "match", okOut |-> (out = cout),
                 okKeep |-> LET p0 == Parse(file) p1 == Parse(file') IN
                   CASE out = "updated" ->
                          /\ p0.order = p1.order
                          /\ \A i \in DOMAIN p0.entries : p0.entries[i].h # h => p0.entries[i] = p1.entries[i]
                     [] out = "added" ->
                          /\ Len(p1.entries) = Len(p0.entries) + 1
                          /\ \A i \in DOMAIN p0.entries : p0.entries[i] = p1.entries[i]
                     [] OTHER -> file' = file]
  /\ nops' = nops + 1
  /\ UNCHANGED <<mode, file0>>

\* the test's cleanups run: its ordinal restarts (repeated executions, -count)
EndTest(t) ==
  /\ nops < MaxOps /\ ordv[t] > 0
  /\ ordv' = [ordv EXCEPT ![t] = 0]
  /\ nops' = nops + 1
  /\ last' = [op |-> "end", okOut |-> TRUE, okKeep |-> TRUE]
  /\ hist' = IF EmitHist THEN Append(hist, [op |-> "end", t |-> t]) ELSE hist
  /\ UNCHANGED <<file, slot, order, mode, tainted, file0>>

\* a new process: registries are empty, the directory persists
NewProc(m) ==
  /\ nops < MaxOps /\ nops > 0 /\ last.op # "proc"
  /\ mode' = m
  /\ ordv' = [t \in Tests |-> 0]
  /\ nops' = nops + 1
  /\ last' = [op |-> "proc", okOut |-> TRUE, okKeep |-> TRUE]
  /\ hist' = IF EmitHist THEN Append(hist, [op |-> "proc", mode |-> m]) ELSE hist
  /\ UNCHANGED <<file, slot, order, tainted, file0>>

Emit ==
  /\ EmitHist /\ nops = MaxOps /\ last.op # "emitted"
  /\ PrintT("@@" \o ToJson([init |-> file0, hist |-> hist]))
  /\ last' = [op |-> "emitted", okOut |-> TRUE, okKeep |-> TRUE]
  /\ UNCHANGED <<file, slot, order, ordv, mode, nops, tainted, file0, hist>>

\* generation configurations shape the histories inside Next (not by a constraint, so that
\* generation and checking see the same space)
Allowed(kind) == Plan = <<>> \/ (nops < Len(Plan) /\ Plan[nops + 1] \in {kind, "any"})

Next ==
  \/ Allowed("match") /\ \E t \in Tests, v \in Bodies : Match(t, v)
  \/ Allowed("end") /\ \E t \in Tests : EndTest(t)
  \/ Allowed("proc") /\ \E m \in Modes : NewProc(m)
  \/ Emit

Spec == Init /\ [][Next]_vars

(***************************************************************************)
(* Properties.  State invariants over (file, slot); per-call clauses as     *)
(* action properties so that TLC evaluates them on every transition.        *)
(***************************************************************************)
Excused == ExcludeKnown /\ tainted

\* C03 / C04 / C18: the file is exactly the frames of the contract's slots, in order
FileRefines ==
  ~Excused =>
    LET p == Parse(file) IN
    /\ p.wellformed
    /\ {p.entries[i].h : i \in DOMAIN p.entries} = DOMAIN slot
    /\ \A i \in DOMAIN p.entries : p.entries[i].b = Escape(slot[p.entries[i].h])
    /\ p.order = order

\* C01 / C02 / C05: the implementation's outcome is the contract's outcome
OutcomeRefines == ~Excused => last.okOut

\* C03 / C04: an update leaves every other entry's lines and position untouched, a creating
\* call appends and moves nothing, passing and failing calls write nothing
OthersKeptInPlace == ~Excused => last.okKeep

View == <<file, slot, order, ordv, mode, nops, tainted, last>>
=============================================================================
