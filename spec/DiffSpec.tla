------------------------------ MODULE DiffSpec ------------------------------
(***************************************************************************)
(* C13: the relation the failure report must satisfy, independent of the    *)
(* diff algorithm (any correct algorithm is accepted).                      *)
(*                                                                          *)
(* A case is a record                                                       *)
(*   a, b     the two texts as line sequences (strings.Split(text, "\n"))   *)
(*   same     the texts are byte-identical                                  *)
(*   hasops   the white-box probe delivered the edit script                 *)
(*   ops      edit script [t, i1, i2, j1, j2] (0 equal 1 insert 2 delete    *)
(*            3 replace), groups = hunks of ops with 3 lines of context     *)
(*   nc       the NO_COLOR report, parsed: [empty, esc, del, ins, wf,       *)
(*            ranged, hunks : Seq([sa, la, sb, lb, lines : Seq([t, s])])]   *)
(*   col      the coloured report: [empty, del, ins]                        *)
(* TLC evaluates these predicates on records produced by the REAL code.     *)
(***************************************************************************)
EXTENDS Integers, Sequences, SequencesExt, FiniteSets, TLC

Seg(s, lo, hi) == SubSeq(s, lo + 1, hi)      \* half-open, 0-based like the opcodes

\* the script tiles both texts contiguously, equal only on identical lines, replays a into b
ValidEditScript(a, b, ops) ==
  /\ ops # <<>> => (ops[1].i1 = 0 /\ ops[1].j1 = 0 /\ ops[Len(ops)].i2 = Len(a) /\ ops[Len(ops)].j2 = Len(b))
  /\ ops = <<>> => (a = <<>> /\ b = <<>>)
  /\ \A k \in 1..(Len(ops) - 1) : ops[k].i2 = ops[k + 1].i1 /\ ops[k].j2 = ops[k + 1].j1
  /\ \A k \in DOMAIN ops :
       LET o == ops[k] IN
       /\ o.i1 <= o.i2 /\ o.j1 <= o.j2
       /\ CASE o.t = 0 -> o.i2 - o.i1 = o.j2 - o.j1 /\ o.i1 < o.i2 /\ Seg(a, o.i1, o.i2) = Seg(b, o.j1, o.j2)
            [] o.t = 1 -> o.i1 = o.i2 /\ o.j1 < o.j2
            [] o.t = 2 -> o.j1 = o.j2 /\ o.i1 < o.i2
            [] o.t = 3 -> o.i1 < o.i2 /\ o.j1 < o.j2
            [] OTHER   -> FALSE
  /\ FoldLeft(LAMBDA acc, o : IF o.t = 0 THEN acc \o Seg(a, o.i1, o.i2)
                              ELSE IF o.t = 2 THEN acc ELSE acc \o Seg(b, o.j1, o.j2), <<>>, ops) = b

\* hunks never omit a changed line: every non-equal op lies, whole, in some hunk; hunk ops are
\* sub-ranges of script ops with the same tag
HunksCoverChanges(ops, groups) ==
  /\ \A k \in DOMAIN ops : ops[k].t # 0 =>
        \E g \in DOMAIN groups : \E x \in DOMAIN groups[g] : groups[g][x] = ops[k]
  /\ \A g \in DOMAIN groups : \A x \in DOMAIN groups[g] :
        LET h == groups[g][x] IN
        \E k \in DOMAIN ops : ops[k].t = h.t /\ ops[k].i1 <= h.i1 /\ h.i2 <= ops[k].i2
                                             /\ ops[k].j1 <= h.j1 /\ h.j2 <= ops[k].j2

EmptyIffEqual(c) == (c.nc.empty <=> c.same) /\ (c.col.empty <=> c.same)

Proj(lines, tags) == SelectSeq(lines, LAMBDA x : x.t \in tags)
Texts(lines) == [i \in DOMAIN lines |-> lines[i].s]
AllLines(r) == FoldLeft(LAMBDA acc, h : acc \o h.lines, <<>>, r.hunks)
CountTag(r, t) == Len(Proj(AllLines(r), {t}))

IsMember(x, s) == \E i \in DOMAIN s : s[i] = x

\* NO_COLOR report: no escape sequences, counts match, shown lines belong to their texts
ReportBasics(c) ==
  ~c.same =>
    /\ c.nc.wf /\ ~c.nc.esc
    /\ c.nc.del = CountTag(c.nc, "-") /\ c.nc.ins = CountTag(c.nc, "+")
    /\ \A i \in DOMAIN AllLines(c.nc) :
         LET x == AllLines(c.nc)[i] IN
         CASE x.t = "-" -> IsMember(x.s, c.a)
           [] x.t = "+" -> IsMember(x.s, c.b)
           [] OTHER     -> IsMember(x.s, c.a) /\ IsMember(x.s, c.b)
    /\ c.nc.del + c.nc.ins > 0

\* taking the "-" lines out of the stored text and the "+" lines out of the received text leaves
\* the same lines.  A ranged hunk states where it sits: inside a hunk the tagged lines ARE the two
\* texts, between hunks the texts agree.  An unranged report of short texts is a single window
\* (leading and trailing context is cut to three lines): some placement of it must do.
HunksAt(c, hs) ==
    /\ \A k \in DOMAIN hs :
         /\ Texts(Proj(hs[k].lines, {" ", "-"})) = Seg(c.a, hs[k].sa, hs[k].sa + hs[k].la)
         /\ Texts(Proj(hs[k].lines, {" ", "+"})) = Seg(c.b, hs[k].sb, hs[k].sb + hs[k].lb)
    /\ \A k \in 1..(Len(hs) - 1) :
         Seg(c.a, hs[k].sa + hs[k].la, hs[k + 1].sa) = Seg(c.b, hs[k].sb + hs[k].lb, hs[k + 1].sb)
    /\ hs # <<>> =>
         /\ Seg(c.a, 0, hs[1].sa) = Seg(c.b, 0, hs[1].sb)
         /\ Seg(c.a, hs[Len(hs)].sa + hs[Len(hs)].la, Len(c.a)) = Seg(c.b, hs[Len(hs)].sb + hs[Len(hs)].lb, Len(c.b))

Aligned(c) ==
  (~c.same /\ c.nc.wf /\ c.nc.exact) =>
    IF c.nc.ranged THEN HunksAt(c, c.nc.hunks)
    ELSE /\ Len(c.nc.hunks) = 1
         /\ LET ls == c.nc.hunks[1].lines
                pa == Len(Proj(ls, {" ", "-"}))
                pb == Len(Proj(ls, {" ", "+"}))
            IN  \E oa \in 0..(Len(c.a) - pa), ob \in 0..(Len(c.b) - pb) :
                   HunksAt(c, << [sa |-> oa, la |-> pa, sb |-> ob, lb |-> pb, lines |-> ls] >>)

\* coloured mode: counts are not negative and something is shown
ColourBasics(c) == ~c.same => (c.col.del >= 0 /\ c.col.ins >= 0 /\ c.col.del + c.col.ins > 0)

Script(c) == c.hasops => (ValidEditScript(c.a, c.b, c.ops) /\ HunksCoverChanges(c.ops, c.groups))
=============================================================================
