---------------------------- MODULE MC_DocsCheck ----------------------------
(***************************************************************************)
(* C15 judged on REAL outputs: every case holds a document, a matcher       *)
(* sequence, and what the real matchers returned when applied directly to   *)
(* the caller's bytes (projected back to the abstract document by the       *)
(* harness).  TLC recomputes Docs!ApplyAll and compares.                    *)
(***************************************************************************)
EXTENDS Docs, Json

Cases == ndJsonDeserialize("docscases.ndjson")

VARIABLES i
vars == <<i>>
Init == i \in DOMAIN Cases
Next == UNCHANGED i
Spec == Init /\ [][Next]_vars

C == Cases[i]
Exp == ApplyAll(C.ms, C.d)

\* YAML integers are uint64 for the library's Type matcher
Tok(v) == IF C.yaml /\ v = "\"<Type:float64>\"" THEN "\"<Type:uint64>\"" ELSE v

\* the result is the input with exactly the targeted values replaced (a valid document)
P_Out == C.parsed => \A p \in Paths : C.obsd[p] = Tok(Exp.d[p])
\* malformed output is a violation unless the sequence fails anyway
P_Valid == (Exp.errs = <<>>) => C.parsed
\* failures: exactly the unsatisfiable matchers, in order
P_Errs == C.obserrs = Exp.errs
\* the caller's bytes are never modified
P_Buf == C.bufsame
=============================================================================
