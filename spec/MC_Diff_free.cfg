SPECIFICATION Spec
CONSTANTS
  Alphabet = {"x", "y", "z"}
  MaxLen = 3
  EmitPairs = FALSE
  CheckDomain = FALSE
INVARIANTS P_EmptyIffEqual P_ReportBasics P_Aligned P_Colour P_Script
CHECK_DEADLOCK FALSE
