SPECIFICATION Spec
CONSTANTS
  OptSets <- mcOptSets
  MaxLen = 3
  StandaloneJSONDefaultsExtInReceiver = FALSE
  EmitSeqs = TRUE
INVARIANTS ConfigImmutable LocationFromBuiltOptions
CHECK_DEADLOCK FALSE
