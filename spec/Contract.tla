------------------------------ MODULE Contract ------------------------------
(***************************************************************************)
(* Property-level specification of go-snaps: what a user relies on.         *)
(* It knows nothing about lines, headers in files, locks or scanners: its   *)
(* state is the slot map (what a Match* call is compared with), standalone  *)
(* files, per-execution ordinals, the outcome counters and the process      *)
(* mode.  The twenty properties C01..C20 are judged at this level; real     *)
(* executions are projected to this state (TraceSeq.tla) and the            *)
(* implementation-shaped models refine it (MC_Framing.tla, MC_Clean.tla).   *)
(*                                                                          *)
(* A value is [vl, vid, known]: vl = the formatted text as a sequence of    *)
(* lines (strings.Split(text, "\n")), known = whether the harness knows the *)
(* text independently of go-snaps (string / []byte inputs of MatchSnapshot, *)
(* MatchYAML, MatchStandaloneSnapshot), vid = identity of the value for     *)
(* inputs whose text only go-snaps produces (Go values, JSON documents).    *)
(***************************************************************************)
EXTENDS Mode, Paths

VARIABLES
  mode,     \* [ci, updvar, count, run]  captured at process start
  slot,     \* [<<path, hdr>> -> value]  entries of multi-entry files
  order,    \* [path -> Seq(hdr)]        order of entries inside each multi-entry file
  alone,    \* [path -> value]           standalone snapshot files
  ord,      \* [<<path, test>> -> Nat]   ordinal inside the current execution of a test
  sord,     \* [key -> Nat]              standalone ordinal per path pattern
  sused,    \* [test -> SUBSET key]      patterns a test execution used (reset at its end)
  addrM,    \* set of <<path, hdr>> addressed by a Match* call in this process
  addrS,    \* set of standalone paths addressed in this process
  usedF,    \* multi-entry files addressed in this process
  visitedD, \* directories in which a call of this process addressed something
  cnt,      \* [passed, failed, added, updated -> Nat]
  nskip,    \* number of snaps.Skip* calls
  ran,      \* tests that began in this process
  skipSet,  \* tests that called snaps.Skip*
  fmtOf,    \* [vid -> vl]  text go-snaps produced for a value identity, first time seen
  alias     \* [path -> path] standalone locations observed elsewhere than Paths says, under the
            \* signature of known finding K8 (`%` in a path component); the contract follows
            \* the observed location so that the REST of the history is still judged

cvars == <<mode, slot, order, alone, ord, sord, sused, addrM, addrS, usedF, visitedD, cnt, nskip, ran, skipSet, fmtOf, alias>>

Get(f, k, d) == IF k \in DOMAIN f THEN f[k] ELSE d
Put(f, k, v) == [x \in DOMAIN f \cup {k} |-> IF x = k THEN v ELSE f[x]]
Del(f, ks)   == [x \in DOMAIN f \ ks |-> f[x]]

ZeroCnt == [passed |-> 0, failed |-> 0, added |-> 0, updated |-> 0]

(***************************************************************************)
(* Values                                                                   *)
(***************************************************************************)
\* do a stored value and a received value format identically?
\*   "yes" / "no" / "unknown" (the text of one side is only known to go-snaps and was never
\*   observed, and the identities do not settle it).  inj = the identity is injective within its
\*   family (different identities format differently): canonical JSON documents, named Go values.
Family(vid) == LET i == IndexOf(vid, ":") IN IF i = 0 THEN vid ELSE SubSeq(vid, 1, i)
Same(st, rc, fm) ==
  LET stT == IF st.known \/ st.vl # <<>> THEN <<TRUE, st.vl>>
             ELSE IF st.vid \in DOMAIN fm THEN <<TRUE, fm[st.vid]>> ELSE <<FALSE, <<>>>>
      rcT == IF rc.known THEN <<TRUE, rc.vl>>
             ELSE IF rc.vid \in DOMAIN fm THEN <<TRUE, fm[rc.vid]>> ELSE <<FALSE, <<>>>>
  IN  IF ~st.known /\ ~rc.known /\ st.vid # "" /\ st.vid = rc.vid THEN "yes"
      ELSE IF stT[1] /\ rcT[1] THEN (IF stT[2] = rcT[2] THEN "yes" ELSE "no")
      ELSE IF ~st.known /\ ~rc.known /\ st.inj /\ rc.inj /\ Family(st.vid) = Family(rc.vid)
      THEN "no"
      ELSE "unknown"

(***************************************************************************)
(* Process start: registries and counters are empty, the directory persists *)
(***************************************************************************)
CStart(m) ==
  /\ mode' = m
  /\ ord' = <<>> /\ sord' = <<>> /\ sused' = <<>>
  /\ addrM' = {} /\ addrS' = {} /\ usedF' = {} /\ visitedD' = {}
  /\ cnt' = ZeroCnt /\ nskip' = 0 /\ ran' = {} /\ skipSet' = {}
  /\ UNCHANGED <<slot, order, alone, fmtOf, alias>>

CBegin(t) ==
  /\ ran' = ran \cup {t}
  /\ UNCHANGED <<mode, slot, order, alone, ord, sord, sused, addrM, addrS, usedF, visitedD, cnt, nskip, skipSet, fmtOf, alias>>

\* cleanups of test t run: its ordinals restart at 1 (C03: repeated executions, -count)
\* od: the entry order per file the contract continues with (the recorded one, or -- after parallel
\* subtests, whose appends land in schedule order -- the observed one)
CEndWith(t, od) ==
  /\ ord'  = [x \in DOMAIN ord |-> IF x[2] = t THEN 0 ELSE ord[x]]
  /\ sord' = [x \in DOMAIN sord |-> IF x \in Get(sused, t, {}) THEN 0 ELSE sord[x]]
  /\ sused' = Del(sused, {t})
  /\ order' = od
  /\ UNCHANGED <<mode, slot, alone, addrM, addrS, usedF, visitedD, cnt, nskip, ran, skipSet, fmtOf, alias>>
CEnd(t) == CEndWith(t, order)

CSkip(t) ==
  /\ skipSet' = skipSet \cup {t}
  /\ nskip' = nskip + 1
  /\ UNCHANGED <<mode, slot, order, alone, ord, sord, sused, addrM, addrS, usedF, visitedD, cnt, ran, fmtOf, alias>>

(***************************************************************************)
(* One Match* call.                                                         *)
(*   c   = [api, cfg (options the Config was built with), tdir, tbase,      *)
(*          test, upd, val, invalid, mfail]                                 *)
(* The call is deterministic: ordinal, location, outcome and the only       *)
(* permitted change are functions of the contract state and the arguments.  *)
(***************************************************************************)
Standalone(c) == IsStandalone(c.api)

CallPath(c)  == MultiPath(c.cfg, c.tdir, c.tbase)
CallKey(c)   == StandaloneKey(c.cfg, c.tdir, c.test, c.api)
CallK(c)     == IF Standalone(c) THEN Get(sord, CallKey(c), 0) + 1
                                 ELSE Get(ord, <<CallPath(c), c.test>>, 0) + 1
CallHdr(c)   == Hdr(c.test, CallK(c))
CallSPath0(c) == StandalonePath(c.cfg, c.tdir, c.test, c.api, CallK(c))
CallSPath(c) == IF CallSPath0(c) \in DOMAIN alias THEN alias[CallSPath0(c)] ELSE CallSPath0(c)

\* the stored value the call is compared with, if any
Addressed(c) ==
  IF Standalone(c)
  THEN (IF CallSPath(c) \in DOMAIN alone THEN <<TRUE, alone[CallSPath(c)]>> ELSE <<FALSE, <<>>>>)
  ELSE (IF <<CallPath(c), CallHdr(c)>> \in DOMAIN slot
        THEN <<TRUE, slot[<<CallPath(c), CallHdr(c)>>]>> ELSE <<FALSE, <<>>>>)

\* "missing" / "equal" / "different" / "unknown"
EntryState(c) ==
  LET a == Addressed(c) IN
  IF ~a[1] THEN "missing"
  ELSE LET s == Same(a[2], c.val, fmtOf)
       IN  IF s = "yes" THEN "equal" ELSE IF s = "no" THEN "different" ELSE "unknown"

\* the outcome the call must have ("any" when the harness cannot tell equal from different)
COutcome(c) ==
  IF c.invalid \/ c.mfail # <<>> THEN "failed"
  ELSE LET st == EntryState(c) IN
       IF st = "unknown" THEN "any" ELSE Outcome(mode.ci, c.upd, mode.updvar, st)

\* contract state after the call whose outcome was `out`; `seen` is the text observed in the
\* addressed location afterwards (used only to learn the text of values go-snaps formats)
\* spath: where the standalone file is (Paths' location, or the observed one under K8)
\* learn = the directory was observed right after the call (not the case between parallel siblings):
\* only then is `seen` the text this call stored
CMatchAtL(c, out, seen, spath, learn) ==
  LET v == IF c.val.known THEN c.val ELSE [c.val EXCEPT !.vl = IF learn THEN seen ELSE <<>>] IN
  /\ IF Standalone(c)
     THEN /\ sord' = Put(sord, CallKey(c), CallK(c))
          /\ sused' = Put(sused, c.test, Get(sused, c.test, {}) \cup {CallKey(c)})
          /\ addrS' = addrS \cup {spath}
          /\ alone' = IF Writes(out) THEN Put(alone, spath, v) ELSE alone
          /\ alias' = IF spath # CallSPath0(c) THEN Put(alias, CallSPath0(c), spath) ELSE alias
          /\ UNCHANGED <<ord, addrM, usedF, slot, order>>
     ELSE /\ ord' = Put(ord, <<CallPath(c), c.test>>, CallK(c))
          /\ addrM' = addrM \cup {<<CallPath(c), CallHdr(c)>>}
          /\ usedF' = usedF \cup {CallPath(c)}
          /\ slot' = IF Writes(out) THEN Put(slot, <<CallPath(c), CallHdr(c)>>, v) ELSE slot
          /\ order' = IF out = "added"
                      THEN Put(order, CallPath(c), Append(Get(order, CallPath(c), <<>>), CallHdr(c)))
                      ELSE order
          /\ UNCHANGED <<sord, sused, addrS, alone, alias>>
  /\ visitedD' = visitedD \cup {DirOf(c.cfg, c.tdir)}
  /\ cnt' = IF out \in DOMAIN cnt THEN [cnt EXCEPT ![out] = @ + 1] ELSE cnt
  /\ fmtOf' = IF learn /\ ~c.val.known /\ c.val.vid # "" /\ c.val.vid \notin DOMAIN fmtOf /\ Writes(out)
              THEN Put(fmtOf, c.val.vid, seen) ELSE fmtOf
  /\ UNCHANGED <<mode, nskip, ran, skipSet>>

CMatchAt(c, out, seen, spath) == CMatchAtL(c, out, seen, spath, TRUE)
CMatch(c, out, seen) == CMatchAt(c, out, seen, CallSPath(c))

(***************************************************************************)
(* Clean.  Relational: the contract fixes which items are protected, which  *)
(* must be listed, which may be removed; it leaves free what the properties *)
(* leave free (listing of unprotected stale items under a -run filter).     *)
(***************************************************************************)
SkipProtected(test) ==
  \E s \in skipSet : test = s \/ HasPrefix(test, s \o "/")

\* program = the tests the test binary contains (known from the script of the scenario)
FilteredOut(test, program) == mode.run # "" /\ test \in program /\ test \notin ran
Protected(test, program)   == SkipProtected(test) \/ FilteredOut(test, program)

Deleting == CleanDeletes(mode.ci, mode.updvar)

(***************************************************************************)
(* Clean as a transition.  Without a -run filter and on files that are      *)
(* sequences of frames the relational judgement of TraceSeq!TraceClean      *)
(* leaves exactly one post state; CClean is that state, so that the         *)
(* contract is a closed state machine (record / replay / update / Clean     *)
(* over several processes) that TLC can explore (MC_ContractClean.tla).     *)
(*   srt    the Sort option                                                 *)
(*   protS  standalone files whose owning test is protected (the owner of   *)
(*          a standalone file is known to whoever knows the program)        *)
(***************************************************************************)
TestOfHdr(h) == NameOfId(IdOfHeader(h))
PathDir(p) ==
  LET idx == {i \in 1..Len(p) : Char(p, i) = "/"}
  IN  IF idx = {} THEN "" ELSE SubSeq(p, 1, (CHOOSE i \in idx : \A j \in idx : j <= i) - 1)
HdrLess(a, b) == NaturalLess(IdOfHeader(a), IdOfHeader(b))

\* entries of used files nobody addressed and nobody protects
StaleM == {k \in DOMAIN slot : k[1] \in usedF /\ k \notin addrM /\ ~SkipProtected(TestOfHdr(k[2]))}
\* whole multi-entry files directly inside a visited directory that no call used
StaleF == {p \in DOMAIN order : /\ p \notin usedF /\ PathDir(p) \in visitedD
                                 /\ ~\E i \in DOMAIN order[p] : SkipProtected(TestOfHdr(order[p][i]))}
StaleS(protS) == {p \in DOMAIN alone : p \notin addrS /\ PathDir(p) \in visitedD /\ p \notin protS}

CClean(srt, protS) ==
  LET gone  == IF Deleting THEN StaleM \cup {k \in DOMAIN slot : k[1] \in StaleF} ELSE {}
      goneF == IF Deleting THEN StaleF ELSE {}
      goneS == IF Deleting THEN StaleS(protS) ELSE {}
      left(p) == SelectSeq(order[p], LAMBDA h : <<p, h>> \notin gone)
      sorts == CleanSorts(mode.ci, srt)
  IN  /\ slot'  = Del(slot, gone)
      /\ alone' = Del(alone, goneS)
      /\ order' = [p \in DOMAIN order \ goneF |->
                     IF sorts /\ p \in usedF THEN SortSeq(left(p), HdrLess) ELSE left(p)]
      /\ UNCHANGED <<mode, ord, sord, sused, addrM, addrS, usedF, visitedD, cnt, nskip, ran, skipSet, fmtOf, alias>>

=============================================================================
