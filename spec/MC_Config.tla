----------------------------- MODULE MC_Config ------------------------------
(***************************************************************************)
(* C12: a Config is immutable; where a call stores its snapshot depends     *)
(* only on the options the Config was BUILT with.                           *)
(*                                                                          *)
(* cfgOpts is what WithConfig was given (contract side, never changes);     *)
(* cfgCur is the Config object as the implementation holds it.  The named   *)
(* deviation StandaloneJSONDefaultsExtInReceiver models the defect repaired *)
(* by the fix commit (F1): with it switched on TLC produces the two-call    *)
(* counterexample; the checked configuration has it off.                    *)
(* The module also emits every call sequence up to MaxLen for replay.       *)
(***************************************************************************)
EXTENDS Paths, Json

CONSTANTS
  OptSets,     \* set of option records [dir, filename, ext]
  MaxLen,
  StandaloneJSONDefaultsExtInReceiver,
  EmitSeqs

APIs == {"snapshot", "json", "yaml", "ssnap", "sjson"}

VARIABLES cfgOpts, cfgCur, hist, lastOK, emitted
vars == <<cfgOpts, cfgCur, hist, lastOK, emitted>>

TDir == "/pkg"  TBase == "main_test"  Test == "TestA"

\* where the implementation puts the k-th call of this kind, given the Config object it holds
ImplLoc(cfg, api, k) ==
  IF IsStandalone(api) THEN StandalonePath(cfg, TDir, Test, api, k) ELSE MultiPath(cfg, TDir, TBase)

Count(h, pred(_)) == Cardinality({i \in DOMAIN h : pred(h[i])})

Init == /\ cfgOpts \in OptSets /\ cfgCur = cfgOpts /\ hist = <<>> /\ lastOK = TRUE /\ emitted = FALSE

Call(api) ==
  /\ Len(hist) < MaxLen /\ ~emitted
  /\ LET held == IF api = "sjson" /\ StandaloneJSONDefaultsExtInReceiver /\ cfgCur.ext = ""
                 THEN [cfgCur EXCEPT !.ext = ".json"] ELSE cfgCur
         \* ordinal of standalone calls is per path pattern
         kImpl == 1 + Cardinality({i \in DOMAIN hist : IsStandalone(hist[i].api)
                                     /\ StandaloneKey(hist[i].held, TDir, Test, hist[i].api) = StandaloneKey(held, TDir, Test, api)})
         kSpec == 1 + Cardinality({i \in DOMAIN hist : IsStandalone(hist[i].api)
                                     /\ StandaloneKey(cfgOpts, TDir, Test, hist[i].api) = StandaloneKey(cfgOpts, TDir, Test, api)})
     IN /\ cfgCur' = held
        /\ lastOK' = (ImplLoc(held, api, kImpl) = ImplLoc(cfgOpts, api, kSpec))
        /\ hist' = Append(hist, [api |-> api, held |-> held])
  /\ UNCHANGED <<cfgOpts, emitted>>

Emit ==
  /\ EmitSeqs /\ ~emitted /\ Len(hist) > 0
  /\ PrintT("@@" \o ToJson([opts |-> cfgOpts, seq |-> [i \in DOMAIN hist |-> hist[i].api]]))
  /\ emitted' = TRUE /\ UNCHANGED <<cfgOpts, cfgCur, hist, lastOK>>

Next == (\E a \in APIs : Call(a)) \/ Emit
Spec == Init /\ [][Next]_vars

\* C12a: using a Config never changes it
ConfigImmutable == cfgCur = cfgOpts
\* C12b: every effect lands where the built options say
LocationFromBuiltOptions == lastOK
=============================================================================
