SPECIFICATION Spec
CONSTANTS
  DocSet <- mcDocs
  Matchers <- mcMatchers
  MaxMs = 2
  EmitCases = FALSE
INVARIANTS OnlyTargetsChange MaskedIndependence FailuresNamed
CHECK_DEADLOCK FALSE
