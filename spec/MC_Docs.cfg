SPECIFICATION Spec
CONSTANTS
  DocSet <- mcDocs
  Matchers <- mcMatchers
  MaxMs = 2
  EmitCases = TRUE
INVARIANTS OnlyTargetsChange MaskedIndependence FailuresNamed
CHECK_DEADLOCK FALSE
