---------------------------- MODULE MC_Docs_gen -----------------------------
EXTENDS MC_Docs
\* documents: every leaf from a small value set; "b" may be absent
mcVals == {"1", "\"s\"", "true"}
mcDocs == {d \in [Paths -> mcVals \cup {Absent, "null", "\"a much longer string value\"", "2.5", "\"t\""}] :
             /\ d["a"] \in {"1", "\"s\"", "\"a much longer string value\""}
             /\ d["b"] \in {"true", Absent, "2.5"}
             /\ d["n.x"] \in {"1", "null"}
             /\ d["n.xy"] \in {"\"s\"", "\"t\""}
             /\ d["l.0"] \in {"1", "\"s\""}
             /\ d["l.1"] \in {"true"}}
M(m, name, p, ph, eomp, t, err) == [m |-> m, name |-> name, p |-> p, ph |-> ph, eomp |-> eomp, t |-> t, err |-> err]
mcMatchers ==
  { M("any", "Any", "a", "\"<Any value>\"", TRUE, "", FALSE),
    M("any", "Any", "n.x", "\"x\"", TRUE, "", FALSE),
    M("any", "Any", "n.xy", "\"x\"", TRUE, "", FALSE),
    M("any", "Any", "b", "12345", TRUE, "", FALSE),
    M("any", "Any", "a", "{\"k\":\"v\"}", TRUE, "", FALSE),
    M("any", "Any", "n.x", "{\"k\":\"v\"}", TRUE, "", FALSE),
    M("any", "Any", "a", "\"q\\\"uo\"", TRUE, "", FALSE),
    M("any", "Any", "b", "\"<Any value>\"", FALSE, "", FALSE),
    M("any", "Any", "l.0", "null", TRUE, "", FALSE),
    M("any", "Any", "zz", "\"<Any value>\"", TRUE, "", FALSE),
    M("any", "Any", "zz", "\"<Any value>\"", FALSE, "", FALSE),
    M("type", "Type", "a", "", TRUE, "string", FALSE),
    M("type", "Type", "a", "", TRUE, "float64", FALSE),
    M("type", "Type", "n.x", "", TRUE, "float64", FALSE),
    M("type", "Type", "b", "", FALSE, "bool", FALSE),
    M("custom", "Custom", "a", "\"custom result\"", TRUE, "", FALSE),
    M("custom", "Custom", "l.1", "\"c\"", TRUE, "", TRUE),
    M("custom", "Custom", "zz", "\"c\"", FALSE, "", FALSE),
    \* string placeholders that spell another YAML/JSON type, the empty string, a null callback result,
    \* a Type matcher meeting null where a missing path would be tolerated
    M("any", "Any", "a", "\"12345\"", TRUE, "", FALSE),
    M("any", "Any", "n.xy", "\"true\"", TRUE, "", FALSE),
    M("custom", "Custom", "l.0", "\"null\"", TRUE, "", FALSE),
    M("any", "Any", "b", "\"\"", TRUE, "", FALSE),
    M("any", "Any", "n.x", "\"\"", TRUE, "", FALSE),
    M("custom", "Custom", "a", "null", TRUE, "", FALSE),
    M("type", "Type", "n.x", "", FALSE, "float64", FALSE) }
=============================================================================
