SPECIFICATION Spec
CONSTANTS
  Tests = {"TestA", "TestAB"}
  MaxK = 2
  Alphabet <- mcAlphaSfx
  MaxBody = 1
  MaxOps = 4
  Modes = {"create", "ci", "update", "noupd"}
  InitFiles <- mcEmpty
  ExcludeKnown = TRUE
  EmitHist = TRUE
  Plan <- mcPlanTwoThenOne
CHECK_DEADLOCK FALSE
