SPECIFICATION Spec
INVARIANTS P_Out P_Valid P_Errs P_Buf
CHECK_DEADLOCK FALSE
