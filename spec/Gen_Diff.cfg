SPECIFICATION Spec
CONSTANTS
  Alphabet = {"x", "y", "z"}
  MaxLen = 3
  EmitPairs = TRUE
  CheckDomain = FALSE
CHECK_DEADLOCK FALSE
