----------------------------- MODULE MC_Contract ----------------------------
(***************************************************************************)
(* The contract itself, model-checked: Contract.tla's actions driven by     *)
(* every call the bounds allow (tests x APIs x configs x values x process   *)
(* modes), with the contract's own outcome, and the properties stated       *)
(* directly on its state:                                                   *)
(*   P_C03  the k-th call of an execution addresses slot (file, test, k);   *)
(*          a call changes at most the slot it addresses (isolation)        *)
(*   P_C05  on CI nothing the contract owns ever changes                    *)
(*   P_C12  where a call lands depends only on the options of its Config    *)
(*   P_C19  standalone call k of a test lands in file k                     *)
(*   P_C20  every call has exactly one outcome; the totals add up           *)
(* This is the "unbounded design + properties" of the method, exercised     *)
(* here within small constants; the same actions are what TraceSeq binds    *)
(* to the real code.                                                        *)
(***************************************************************************)
EXTENDS Contract

CONSTANTS MaxCalls

Tests  == {"TestA", "TestA/x", "TestAB"}
APIs   == {"snapshot", "json", "ssnap", "sjson"}
Cfgs   == { [dir |-> "/abs/snaps", filename |-> "", ext |-> ""],
            [dir |-> "/abs/snaps", filename |-> "custom", ext |-> ".txt"] }
Upds   == {"unset", "true", "false"}
Vals   == { [vl |-> <<"a">>, vid |-> "", known |-> TRUE, inj |-> FALSE],
            [vl |-> <<"b", "">>, vid |-> "", known |-> TRUE, inj |-> FALSE] }
ModesC == { [ci |-> FALSE, updvar |-> "unset", count |-> 1, run |-> ""],
            [ci |-> TRUE,  updvar |-> "true",  count |-> 1, run |-> ""],
            [ci |-> FALSE, updvar |-> "true",  count |-> 1, run |-> ""] }

VARIABLES ncalls, live, slot0, alone0, lastc
mvars == <<cvars, ncalls, live, slot0, alone0, lastc>>

CallRec(t, api, cfg, upd, v, bad) ==
  [api |-> api, cfg |-> cfg, tdir |-> "/pkg", tbase |-> "main_test", test |-> t, upd |-> upd,
   val |-> v, invalid |-> bad, mfail |-> <<>>]

MInit ==
  /\ mode = [ci |-> FALSE, updvar |-> "unset", count |-> 1, run |-> ""]
  /\ slot = <<>> /\ order = <<>> /\ alone = <<>> /\ ord = <<>> /\ sord = <<>> /\ sused = <<>>
  /\ addrM = {} /\ addrS = {} /\ usedF = {} /\ visitedD = {} /\ alias = <<>>
  /\ cnt = ZeroCnt /\ nskip = 0 /\ ran = {} /\ skipSet = {} /\ fmtOf = <<>>
  /\ ncalls = 0 /\ live = {} /\ slot0 = <<>> /\ alone0 = <<>>
  /\ lastc = [op |-> "init"]

MBegin(t) == /\ t \notin live /\ CBegin(t) /\ live' = live \cup {t}
             /\ lastc' = [op |-> "begin"] /\ UNCHANGED <<ncalls, slot0, alone0>>
MEnd(t)   == /\ t \in live /\ CEnd(t) /\ live' = live \ {t}
             /\ lastc' = [op |-> "end"] /\ UNCHANGED <<ncalls, slot0, alone0>>
MStart(m) == /\ live = {} /\ ncalls > 0 /\ lastc.op # "start" /\ CStart(m)
             /\ slot0' = slot /\ alone0' = alone
             /\ lastc' = [op |-> "start"] /\ UNCHANGED <<ncalls, live>>
MCall(t, api, cfg, upd, v, bad) ==
  /\ t \in live /\ ncalls < MaxCalls
  /\ LET c == CallRec(t, api, cfg, upd, v, bad)
         out == COutcome(c)
     IN /\ CMatch(c, out, v.vl)
        /\ lastc' = [op |-> "call", out |-> out, k |-> CallK(c), sa |-> Standalone(c),
                     key |-> IF Standalone(c) THEN <<CallSPath(c), "">> ELSE <<CallPath(c), CallHdr(c)>>,
                     pre |-> [s |-> slot, a |-> alone, n |-> cnt]]
  /\ ncalls' = ncalls + 1 /\ UNCHANGED <<live, slot0, alone0>>

MNext ==
  \/ \E t \in Tests : MBegin(t) \/ MEnd(t)
  \/ \E m \in ModesC : MStart(m)
  \/ \E t \in Tests, api \in APIs, cfg \in Cfgs, upd \in Upds, v \in Vals, bad \in BOOLEAN :
        MCall(t, api, cfg, upd, v, bad)
MSpec == MInit /\ [][MNext]_mvars

Total(n) == n.passed + n.failed + n.added + n.updated

\* C20: exactly one outcome per call, totals add up (per process)
P_C20 == /\ lastc.op = "call" => lastc.out \in {"passed", "failed", "added", "updated"}
         /\ lastc.op = "call" => Total(cnt) = Total(lastc.pre.n) + 1
\* C03 / C19: a call changes at most what it addresses; the ordinal is the position in the execution
P_C03 == lastc.op = "call" =>
  /\ \A k \in (DOMAIN slot \cup DOMAIN lastc.pre.s) :
        k # lastc.key => (k \in DOMAIN slot /\ k \in DOMAIN lastc.pre.s /\ slot[k] = lastc.pre.s[k])
  /\ \A p \in (DOMAIN alone \cup DOMAIN lastc.pre.a) :
        p # lastc.key[1] => (p \in DOMAIN alone /\ p \in DOMAIN lastc.pre.a /\ alone[p] = lastc.pre.a[p])
  /\ lastc.k >= 1
\* C05: on CI nothing changes, ever
P_C05 == mode.ci => (slot = slot0 /\ alone = alone0)
\* C02 / C05: only "added" and "updated" change the addressed value
P_Writes == (lastc.op = "call" /\ ~Writes(lastc.out)) => (slot = lastc.pre.s /\ alone = lastc.pre.a)

MView == <<cvars, ncalls, live, slot0, alone0, lastc>>
=============================================================================
