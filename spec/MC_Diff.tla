------------------------------- MODULE MC_Diff ------------------------------
(***************************************************************************)
(* C13 driver.  Two uses:                                                   *)
(*  Gen (EmitPairs): TLC enumerates ALL ordered pairs of line sequences over *)
(*    Alphabet up to MaxLen and prints them (the exhaustive domain the      *)
(*    property names);                                                      *)
(*  Check: `Cases` holds what the real code produced for every pair; TLC    *)
(*    checks that the domain is complete and every DiffSpec predicate on    *)
(*    every case (one state per case).                                      *)
(***************************************************************************)
EXTENDS DiffSpec, Json

CONSTANTS Alphabet, MaxLen, EmitPairs, CheckDomain

Cases == IF EmitPairs THEN <<>> ELSE ndJsonDeserialize("diffcases.ndjson")

Seqs == UNION {[1..n -> Alphabet] : n \in 0..MaxLen}

VARIABLES i, emitted
vars == <<i, emitted>>

Init == /\ emitted = FALSE
        /\ IF EmitPairs THEN i = 0 ELSE i \in DOMAIN Cases
Next == /\ EmitPairs /\ ~emitted
        /\ PrintT("@@" \o ToJson([seqs |-> SetToSeq(Seqs)]))
        /\ emitted' = TRUE /\ UNCHANGED i
Spec == Init /\ [][Next]_vars

C == Cases[i]
P_EmptyIffEqual == EmitPairs \/ EmptyIffEqual(C)
P_ReportBasics  == EmitPairs \/ ReportBasics(C)
P_Aligned       == EmitPairs \/ Aligned(C)
P_Colour        == EmitPairs \/ ColourBasics(C)
P_Script        == EmitPairs \/ Script(C)
\* the enumerated domain was covered completely by what the real code was run on
\* (ka, kb = the sequences as enumerated; a, b = strings.Split(text, "\n"), which maps the empty
\* sequence to one empty line)
DomainComplete ==
  (~EmitPairs /\ CheckDomain) =>
     {<<Cases[k].ka, Cases[k].kb>> : k \in {k \in DOMAIN Cases : Cases[k].dom}} = Seqs \X Seqs
ASSUME DomainComplete
=============================================================================
