------------------------------ MODULE MC_Clean ------------------------------
(***************************************************************************)
(* examineSnaps at LINE level (SnapFile!CleanFile) against the contract     *)
(* clauses of C07, C09 and C10, for every file of up to MaxEntries entries  *)
(* (ids in any order, bodies with blank, terminator-like and header-like    *)
(* lines), every prefix-closed set of live ordinals, and the four           *)
(* delete x sort modes.  Each case is one initial state; the verdicts are   *)
(* state invariants.  The same cases are printed for replay on the real     *)
(* code (EmitCases).                                                        *)
(*                                                                          *)
(* K6 (only "[Test..." headers are recognised) is a signature predicate:    *)
(* with AllowNonTest = FALSE no such id is generated.                       *)
(***************************************************************************)
EXTENDS SnapFile, Json

CONSTANTS
  Ids,          \* candidate ids, e.g. {"TestA - 1", "TestA - 2", "TestA - 10", "TestB - 1"}
  MaxEntries,
  BodyOf1,      \* [id -> body lines]
  LiveSets,     \* set of sets of ids considered registered (prefix-closed per test by construction)
  ExcludeKnown, \* TRUE: the clauses are conditioned on the K6 signature
  EmitCases

VARIABLES case, emitted
vars == <<case, emitted>>

\* all sequences of distinct ids up to MaxEntries
Arrangements == UNION {{s \in [1..n -> Ids] : \A i, j \in 1..n : i # j => s[i] # s[j]} : n \in 0..MaxEntries}

FileOfArr(arr, blank, nl) ==
  [lines |-> FoldLeft(LAMBDA acc, id : acc \o (IF blank THEN <<"">> ELSE <<>>) \o <<"[" \o id \o "]">> \o BodyOf1[id] \o <<END>>,
                      <<>>, arr),
   nl |-> nl \/ arr = <<>>]

Cases == [arr : Arrangements, live : LiveSets, delete : BOOLEAN, sort : BOOLEAN, blank : BOOLEAN]

Init == case \in Cases /\ emitted = FALSE
Next == /\ EmitCases /\ ~emitted
        /\ PrintT("@@" \o ToJson(case))
        /\ emitted' = TRUE /\ UNCHANGED case
Spec == Init /\ [][Next]_vars

F0       == FileOfArr(case.arr, case.blank, TRUE)
IsLive(id) == id \in case.live
R        == CleanFile(F0, IsLive, case.delete, case.sort)
P0       == Parse(F0)
P1       == Parse(R.file)
HdrsOf(p) == {p.entries[i].h : i \in DOMAIN p.entries}
Bracket(id) == "[" \o id \o "]"
ArrIds   == {case.arr[i] : i \in DOMAIN case.arr}
Known6   == ExcludeKnown /\ \E id \in ArrIds : ~IsCleanHeader(Bracket(id))   \* K6 signature

\* C07: live entries survive with their value and are not reported
P_C07 == ~Known6 =>
  \A id \in ArrIds \cap case.live :
     /\ HasEntry(P1, Bracket(id)) /\ BodyOf(P1, Bracket(id)) = BodyOf(P0, Bracket(id))
     /\ \A i \in DOMAIN R.stale : R.stale[i] # id

\* C09: exactly the non-live entries are reported; removed iff deleting
P_C09 == ~Known6 =>
  /\ {R.stale[i] : i \in DOMAIN R.stale} = ArrIds \ case.live
  /\ Len(R.stale) = Cardinality(ArrIds \ case.live)
  /\ IF case.delete THEN HdrsOf(P1) = {Bracket(id) : id \in ArrIds \cap case.live}
                    ELSE HdrsOf(P1) = HdrsOf(P0)

\* C10: rewrites preserve content; sorting is an idempotent permutation; no needless write
P_C10 == ~Known6 =>
  /\ P1.wellformed
  /\ \A h \in HdrsOf(P1) : HasEntry(P0, h) /\ BodyOf(P1, h) = BodyOf(P0, h)
  /\ Len(P1.entries) = Cardinality(HdrsOf(P1))
  /\ case.sort => IsNaturallySorted([i \in DOMAIN P1.order |-> IdOfHeader(P1.order[i])])
  /\ ~case.sort => P1.order = SelectSeq(P0.order, LAMBDA h : h \in HdrsOf(P1))
  /\ ~R.rewrite => R.file = F0
  /\ (R.rewrite /\ ~case.sort) => (case.delete /\ ArrIds \ case.live # {})
  /\ LET again == CleanFile(R.file, IsLive, case.delete, case.sort) IN
       ~again.rewrite /\ again.file = R.file
=============================================================================
