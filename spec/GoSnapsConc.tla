---------------------------- MODULE GoSnapsConc -----------------------------
(***************************************************************************)
(* C06: N goroutines, each executing one Match* call of its own test        *)
(* against ONE shared multi-entry file, interleaved at every file-system    *)
(* and lock primitive.                                                      *)
(*                                                                          *)
(* The per-branch primitive sequences are NOT written by hand: they are     *)
(* extracted from the current code by solo recording through the scheduler  *)
(* gate and arrive as the constant Prog (DESIGN.md §5.3):                   *)
(*    Prog[kind] = <<"RLock", "ReadAll", "RUnlock", ...>>                   *)
(* for kind in {create, match, mismatch, update}.  What is hand-written is  *)
(* only the semantics of the primitives and the properties.                 *)
(*                                                                          *)
(* A call's program starts with the common read prefix (up to and incl. the *)
(* first RUnlock, or the ReadAll if the code takes no read lock); the       *)
(* branch actually taken afterwards is chosen BY THE MODEL'S OWN FILE STATE *)
(* as the goroutine saw it (missing -> create suffix, equal -> match,       *)
(* different -> update / mismatch by the call's update flag).               *)
(***************************************************************************)
EXTENDS SnapFile, Json

CONSTANTS
  Gs,        \* goroutines, e.g. {"A", "B"}
  TestOf,    \* [g -> test name]
  ValOf,     \* [g -> value lines the call passes]
  UpdOf,     \* [g -> BOOLEAN] the call may update
  InitFile,  \* the shared file before the calls
  NoCreate,  \* [g -> its Config forbids creating (Update(false)): a missing entry is a failure]
  Prog,      \* [kind -> Seq(primitive)] extracted from the code
  PrefixLen  \* length of the common read prefix

VARIABLES
  file,     \* the shared file
  exists,   \* the file exists
  writer,   \* goroutine holding the write lock ("" none)
  readers,  \* [g -> number of read locks the goroutine holds]
  pend,     \* goroutines that have announced Lock and wait for it (Go's RWMutex: a waiting
            \* writer excludes NEW readers, so a goroutine re-entering RLock can deadlock)
  pc,       \* [g -> index of the next primitive]
  kind,     \* [g -> branch taken, "" while in the read prefix]
  seen,     \* [g -> file content ReadAll returned]
  scan,     \* [g -> content read through the RW handle]
  hmode,    \* [g -> "" | "append" | "rw" | "temp"]
  tmp,      \* [g -> content of the goroutine's temporary file (write-then-rename protocols)]
  trunc,    \* [g -> the RW handle's file was truncated by this goroutine and not yet written]
  out,      \* [g -> outcome signalled, "" while running]
  step      \* what moved last (for schedule export)

vars == <<file, exists, writer, readers, pend, pc, kind, seen, scan, hmode, tmp, trunc, out, step>>

HdrG(g) == Hdr(TestOf[g], 1)
Stored(g) == Escape(ValOf[g])

Init ==
  /\ file = InitFile /\ exists = (InitFile.lines # <<>>)
  /\ writer = "" /\ readers = [g \in Gs |-> 0] /\ pend = {}
  /\ pc = [g \in Gs |-> 1] /\ kind = [g \in Gs |-> ""]
  /\ seen = [g \in Gs |-> EmptyFile] /\ scan = [g \in Gs |-> EmptyFile]
  /\ hmode = [g \in Gs |-> ""] /\ trunc = [g \in Gs |-> FALSE] /\ tmp = [g \in Gs |-> EmptyFile]
  /\ out = [g \in Gs |-> ""]
  /\ step = [g |-> "", op |-> "init"]

\* the program a goroutine is running: read prefix of any kind, then its branch
ProgOf(g) == IF kind[g] = "" THEN SubSeq(Prog["match"], 1, PrefixLen) ELSE Prog[kind[g]]
Done(g)   == out[g] # ""
Cur(g)    == ProgOf(g)[pc[g]]

\* branch decision from what the goroutine read
\* (evaluated inside a step, on what the goroutine has read INCLUDING this very step: the read
\* prefix may end with the read itself when the code takes no lock around it)
Decide(g) ==
  LET r == ReadEntry(seen'[g], HdrG(g)) IN
  IF ~r.found THEN (IF NoCreate[g] THEN "mismatch" ELSE "create")
  ELSE IF Unescape(r.body) = Unescape(Stored(g)) THEN "match"
  ELSE IF UpdOf[g] THEN "update" ELSE "mismatch"

OutcomeOf(k) == CASE k = "create" -> "added" [] k = "match" -> "passed"
                  [] k = "update" -> "updated" [] OTHER -> "failed"

\* advance: at the end of the prefix choose the branch; at the end of the branch signal
Advance(g) ==
  IF kind[g] = "" /\ pc[g] = PrefixLen
  THEN /\ kind' = [kind EXCEPT ![g] = Decide(g)]
       /\ pc' = [pc EXCEPT ![g] = PrefixLen + 1]
       /\ out' = IF Len(Prog[Decide(g)]) = PrefixLen THEN [out EXCEPT ![g] = OutcomeOf(Decide(g))] ELSE out
  ELSE /\ pc' = [pc EXCEPT ![g] = @ + 1]
       /\ out' = IF kind[g] # "" /\ pc[g] = Len(Prog[kind[g]]) THEN [out EXCEPT ![g] = OutcomeOf(kind[g])] ELSE out
       /\ UNCHANGED kind

Prim(g) ==
  /\ ~Done(g)
  /\ LET op == Cur(g) IN
     /\ step' = [g |-> g, op |-> op]
     /\ CASE op = "RLock"   -> /\ writer = "" /\ pend = {} /\ readers' = [readers EXCEPT ![g] = @ + 1]
                               /\ UNCHANGED <<file, exists, writer, pend, seen, scan, hmode, tmp, trunc>>
          [] op = "RUnlock" -> /\ readers' = [readers EXCEPT ![g] = IF @ > 0 THEN @ - 1 ELSE 0]
                               /\ UNCHANGED <<file, exists, writer, pend, seen, scan, hmode, tmp, trunc>>
          [] op = "LockReq" -> /\ pend' = pend \cup {g}
                               /\ UNCHANGED <<file, exists, writer, readers, seen, scan, hmode, tmp, trunc>>
          [] op = "Lock"    -> /\ writer = "" /\ \A h \in Gs : readers[h] = 0
                               /\ writer' = g /\ pend' = pend \ {g}
                               /\ UNCHANGED <<file, exists, readers, seen, scan, hmode, tmp, trunc>>
          [] op = "Unlock"  -> /\ writer' = ""
                               /\ UNCHANGED <<file, exists, readers, pend, seen, scan, hmode, tmp, trunc>>
          [] op = "ReadAll" -> /\ seen' = [seen EXCEPT ![g] = IF exists THEN file ELSE EmptyFile]
                               /\ UNCHANGED <<file, exists, writer, readers, pend, scan, hmode, tmp, trunc>>
          [] op = "OpenAppend" -> /\ hmode' = [hmode EXCEPT ![g] = "append"] /\ exists' = TRUE
                                  /\ UNCHANGED <<file, writer, readers, pend, seen, scan, tmp, trunc>>
          [] op = "OpenRW"  -> /\ hmode' = [hmode EXCEPT ![g] = "rw"]
                               /\ UNCHANGED <<file, exists, writer, readers, pend, seen, scan, tmp, trunc>>
          [] op = "ScanAll" -> /\ scan' = [scan EXCEPT ![g] = file]
                               /\ UNCHANGED <<file, exists, writer, readers, pend, seen, hmode, tmp, trunc>>
          [] op = "Truncate" -> /\ file' = EmptyFile /\ trunc' = [trunc EXCEPT ![g] = TRUE]
                                /\ UNCHANGED <<exists, writer, readers, pend, seen, scan, hmode, tmp>>
          [] op = "CreateTemp" -> /\ hmode' = [hmode EXCEPT ![g] = "temp"] /\ tmp' = [tmp EXCEPT ![g] = EmptyFile]
                                  /\ UNCHANGED <<file, exists, writer, readers, pend, seen, scan, trunc>>
          [] op = "Rename" -> \* the temporary file replaces the shared one atomically
               /\ file' = tmp[g] /\ exists' = TRUE
               /\ UNCHANGED <<writer, readers, pend, seen, scan, hmode, tmp, trunc>>
          [] op = "Write" /\ hmode[g] = "temp" ->
               /\ tmp' = [tmp EXCEPT ![g] = IF kind[g] = "create" THEN AppendEntry(scan[g], HdrG(g), Stored(g))
                                                                  ELSE RewriteEntry(scan[g], HdrG(g), Stored(g))]
               /\ UNCHANGED <<file, exists, writer, readers, pend, seen, scan, hmode, trunc>>
          [] op = "Write"   ->
               /\ file' = IF hmode[g] = "append" THEN AppendEntry(file, HdrG(g), Stored(g))
                          ELSE \* RW handle at offset 0: overwrites from the start; what lies
                               \* beyond the written bytes (appended meanwhile) stays
                               LET new == RewriteEntry(scan[g], HdrG(g), Stored(g)) IN
                               IF Len(file.lines) <= Len(new.lines) THEN new
                               ELSE [lines |-> new.lines \o SubSeq(file.lines, Len(new.lines) + 1, Len(file.lines)),
                                     nl |-> file.nl]
               /\ trunc' = [trunc EXCEPT ![g] = FALSE]
               /\ UNCHANGED <<exists, writer, readers, pend, seen, scan, hmode, tmp>>
          [] OTHER -> \* MkdirAll, Seek, Close, Stat ...: no effect on the modelled state
               UNCHANGED <<file, exists, writer, readers, pend, seen, scan, hmode, tmp, trunc>>
     /\ Advance(g)

Next == \E g \in Gs : Prim(g)
Spec == Init /\ [][Next]_vars

(***************************************************************************)
(* Properties                                                               *)
(***************************************************************************)
AllDone == \A g \in Gs : Done(g)

\* serial expectation: slots of different tests are disjoint, so it is unique
InitSlots == LET p == Parse(InitFile) IN [h \in p.hs |-> BodyOf(p, h)]
SerialKind(g) ==
  IF HdrG(g) \notin DOMAIN InitSlots THEN "create"
  ELSE IF Unescape(InitSlots[HdrG(g)]) = Unescape(Stored(g)) THEN "match"
  ELSE IF UpdOf[g] THEN "update" ELSE "mismatch"
ExpectedSlots ==
  [h \in DOMAIN InitSlots \cup {HdrG(g) : g \in {g \in Gs : SerialKind(g) = "create"}} |->
     IF \E g \in Gs : HdrG(g) = h /\ SerialKind(g) \in {"create", "update"}
     THEN Stored(CHOOSE g \in Gs : HdrG(g) = h) ELSE InitSlots[h]]

\* every call gets its serial outcome; at quiescence the file holds exactly one well-formed entry
\* per addressed slot with the right value
Serialisable ==
  /\ \A g \in Gs : Done(g) => out[g] = OutcomeOf(SerialKind(g))
  /\ AllDone =>
       LET p == Parse(file) IN
       /\ p.wellformed
       /\ p.hs = DOMAIN ExpectedSlots
       /\ Len(p.entries) = Cardinality(p.hs)
       /\ \A h \in p.hs : BodyOf(p, h) = ExpectedSlots[h]

\* some goroutine can always move until all are done (a lock taken twice, or never released, stops here)
NoDeadlock == AllDone \/ ENABLED Next

\* whenever nobody is between Truncate and Write the file is a sequence of frames
NeverTorn == (\A g \in Gs : ~trunc[g]) => Parse(file).wellformed
=============================================================================
