SPECIFICATION Spec
CONSTANTS
  Alphabet = {"x", "y", "z"}
  MaxLen = 5
  EmitPairs = TRUE
  CheckDomain = FALSE
CHECK_DEADLOCK FALSE
