---------------------------- MODULE MC_Clean_gen ----------------------------
EXTENDS MC_Clean
mcIds == {"TestA - 1", "TestA - 2", "TestA - 10", "TestB - 1", "TestAB - 1", "TestA/x - 1"}
mcIdsK == mcIds \cup {"BenchmarkX - 1"}
mcBody == [id \in mcIdsK |->
  CASE id = "TestA - 1"  -> <<"a">>
    [] id = "TestA - 2"  -> <<"", "b", "">>
    [] id = "TestA - 10" -> <<"[TestGhost - 1]", "x">>
    [] id = "TestB - 1"  -> <<"--- ", "/-/-/-/">>
    [] id = "TestAB - 1" -> <<"">>
    [] id = "TestA/x - 1" -> <<"[TestB - 1] ", " ---">>
    [] OTHER -> <<"bench">>]
\* live sets: prefix-closed per test (k live implies all lower ordinals of that test live)
mcLive == { {}, {"TestA - 1"}, {"TestA - 1", "TestA - 2"}, {"TestB - 1"}, {"TestA - 1", "TestB - 1"},
            {"TestAB - 1", "TestA/x - 1"}, {"TestA - 1", "TestA - 2", "TestB - 1", "TestAB - 1", "TestA/x - 1"},
            {"TestA - 1", "TestA - 2", "TestA - 3", "TestA - 4", "TestA - 5", "TestA - 6", "TestA - 7", "TestA - 8", "TestA - 9", "TestA - 10", "TestB - 1", "TestAB - 1", "TestA/x - 1", "BenchmarkX - 1"} }
=============================================================================
