SPECIFICATION Spec
INVARIANTS DirRule NameRule
CHECK_DEADLOCK FALSE
