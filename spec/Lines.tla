------------------------------- MODULE Lines -------------------------------
(***************************************************************************)
(* Lines of a snapshot file as real TLA+ strings.  TLC evaluates \o, Len    *)
(* and SubSeq on strings, so header shadowing, terminator/escape collisions *)
(* and Clean's header recognition are computed, not assumed.                *)
(*                                                                          *)
(* Code anchors: snaps/utils.go (endSequence), snaps/snapshot.go            *)
(* (escapeEndChars, unescapeEndChars, getTestID format), snaps/clean.go     *)
(* (getTestID recogniser, naturalSort).                                     *)
(***************************************************************************)
EXTENDS Integers, Sequences, SequencesExt, FiniteSets, TLC

END == "---"          \* entry terminator line (endSequence)
ESC == "/-/-/-/"      \* what a value line equal to END is stored as

Hdr(n, k) == "[" \o n \o " - " \o ToString(k) \o "]"

EscapeL(s)   == IF s = END THEN ESC ELSE s
UnescapeL(s) == IF s = ESC THEN END ELSE s
Escape(b)    == [i \in DOMAIN b |-> EscapeL(b[i])]
Unescape(b)  == [i \in DOMAIN b |-> UnescapeL(b[i])]

Digits == {"0","1","2","3","4","5","6","7","8","9"}
Char(s, i)  == SubSeq(s, i, i)
IsDigits(s) == \A i \in 1..Len(s) : Char(s, i) \in Digits

HasPrefix(s, p) == Len(s) >= Len(p) /\ SubSeq(s, 1, Len(p)) = p
HasSuffix(s, p) == Len(s) >= Len(p) /\ SubSeq(s, Len(s) - Len(p) + 1, Len(s)) = p

\* first index at which pat occurs in s, 0 if none
IndexOf(s, pat) ==
  LET n == Len(pat)
      c == {i \in 1..(IF Len(s) >= n THEN Len(s) - n + 1 ELSE 0) : SubSeq(s, i, i + n - 1) = pat}
  IN  IF c = {} THEN 0 ELSE CHOOSE i \in c : \A j \in c : i <= j

StrContains(s, pat) == IndexOf(s, pat) # 0

ReplaceChar(s, from, to) ==
  FoldLeft(LAMBDA acc, i : acc \o (IF Char(s, i) = from THEN to ELSE Char(s, i)), "",
           [i \in 1..Len(s) |-> i])

(***************************************************************************)
(* Clean's header recogniser (clean.go getTestID): the line starts with     *)
(* "[Test", ends with "]", contains " - ", and what lies between the FIRST  *)
(* " - " and the final "]" is all digits (possibly empty).                  *)
(***************************************************************************)
IsCleanHeader(line) ==
  /\ Len(line) > 0
  /\ HasPrefix(line, "[Test")
  /\ Char(line, Len(line)) = "]"
  /\ LET sep == IndexOf(line, " - ")
     IN  /\ sep # 0
         /\ IsDigits(SubSeq(line, sep + 3, Len(line) - 1))

\* the id Clean works with: the header without its brackets
IdOfHeader(line) == SubSeq(line, 2, Len(line) - 1)
\* test name of an id, as skip.go derives it: everything before the first " - "
NameOfId(id) == LET sep == IndexOf(id, " - ") IN IF sep = 0 THEN id ELSE SubSeq(id, 1, sep - 1)

(***************************************************************************)
(* Natural order of ids (maruel/natural): maximal digit runs compare as     *)
(* numbers, everything else byte-wise.  CharRank is supplied for the        *)
(* characters the generators use in ids.                                    *)
(***************************************************************************)
CharOrder == " !\"#$%&'()*+,-./0123456789:;<=>?@ABCDEFGHIJKLMNOPQRSTUVWXYZ[\\]^_`abcdefghijklmnopqrstuvwxyz{|}~"
CharRank(c) == IndexOf(CharOrder, c)

\* tokens of an id: every non-digit character is a token, every maximal digit run is one token
TokStep(acc, c) ==
  LET d == c \in Digits IN
  IF acc # <<>> /\ d /\ acc[Len(acc)].dig
  THEN [acc EXCEPT ![Len(acc)] = [dig |-> TRUE, s |-> acc[Len(acc)].s \o c]]
  ELSE Append(acc, [dig |-> d, s |-> c])
Tokens(s) == FoldLeft(TokStep, <<>>, [i \in 1..Len(s) |-> Char(s, i)])

DigitVal(c) == IndexOf("0123456789", c) - 1
NumVal(s)   == FoldLeft(LAMBDA acc, i : acc * 10 + DigitVal(Char(s, i)), 0, [i \in 1..Len(s) |-> i])

\* a < b in natural order (ids without leading zeros in digit runs, characters of CharOrder)
NaturalLess(a, b) ==
  LET ta == Tokens(a)  tb == Tokens(b)
      n  == IF Len(ta) < Len(tb) THEN Len(ta) ELSE Len(tb)
      d  == {i \in 1..n : ta[i] # tb[i]}
  IN  IF d = {} THEN Len(ta) < Len(tb)
      ELSE LET i == CHOOSE i \in d : \A j \in d : i <= j
               x == ta[i]  y == tb[i]
           IN  IF x.dig /\ y.dig THEN NumVal(x.s) < NumVal(y.s)
               ELSE CharRank(Char(x.s, 1)) < CharRank(Char(y.s, 1))

IsNaturallySorted(ids) == \A i \in 1..(Len(ids) - 1) : ~NaturalLess(ids[i + 1], ids[i])

=============================================================================
