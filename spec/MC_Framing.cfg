SPECIFICATION Spec
CONSTANTS
  Tests = {"TestA", "TestAB"}
  MaxK = 2
  Alphabet <- mcAlpha4
  MaxBody = 2
  MaxOps = 3
  Modes = {"create", "ci", "update", "noupd"}
  InitFiles <- mcInitFiles
  ExcludeKnown = TRUE
  EmitHist = FALSE
  Plan <- mcNoPlan
INVARIANTS FileRefines OutcomeRefines OthersKeptInPlace
VIEW View
CHECK_DEADLOCK FALSE
