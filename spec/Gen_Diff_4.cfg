SPECIFICATION Spec
CONSTANTS
  Alphabet = {"x", "y", "z"}
  MaxLen = 4
  EmitPairs = TRUE
  CheckDomain = FALSE
CHECK_DEADLOCK FALSE
