SPECIFICATION Spec
INVARIANTS DirRule NameRule ShapeCwdTrimpathIrrelevant
CHECK_DEADLOCK FALSE
