SPECIFICATION Spec
INVARIANTS CellOK TableHolds
CHECK_DEADLOCK FALSE
