SPECIFICATION MSpec
CONSTANTS MaxCalls = 6
INVARIANTS P_C20 P_C03 P_C05 P_Writes
CHECK_DEADLOCK FALSE
