SPECIFICATION Spec
CONSTANTS
  Tests = {"TestA", "TestAB"}
  MaxK = 2
  Alphabet <- mcAlpha3
  MaxBody = 1
  MaxOps = 3
  Modes = {"create", "ci", "update"}
  InitFiles <- mcInitFiles
  ExcludeKnown = TRUE
  EmitHist = TRUE
  Plan <- mcNoPlan
CHECK_DEADLOCK FALSE
