-------------------------------- MODULE Mode --------------------------------
(***************************************************************************)
(* The write-permission table (C05).  Inputs:                               *)
(*   ci      BOOLEAN   CI detected at process start (ciinfo.IsCI)           *)
(*   upd     "unset" | "true" | "false"      the Config's Update option     *)
(*   updvar  "unset" | "true" | "clean" | "other"   UPDATE_SNAPS at start   *)
(*   sortopt BOOLEAN   CleanOpts.Sort                                       *)
(* Code anchors: utils.go shouldCreate/shouldUpdate/shouldClean,            *)
(* clean.go Clean (shouldClean && !isCI, opt.Sort && !isCI).                *)
(***************************************************************************)
UpdOpts == {"unset", "true", "false"}
UpdVars == {"unset", "true", "clean", "other"}

ShouldCreate(ci, upd) ==
  IF ci THEN FALSE ELSE IF upd # "unset" THEN upd = "true" ELSE TRUE

ShouldUpdate(ci, upd, updvar) ==
  IF ci THEN FALSE ELSE IF upd # "unset" THEN upd = "true" ELSE updvar = "true"

CleanDeletes(ci, updvar) == ~ci /\ updvar \in {"true", "clean"}
CleanSorts(ci, sortopt)  == ~ci /\ sortopt

\* The outcome a call must have, from the state of the addressed entry
\*   st \in {"missing", "equal", "different"}
Outcome(ci, upd, updvar, st) ==
  CASE st = "missing"   -> IF ShouldCreate(ci, upd) THEN "added" ELSE "failed"
    [] st = "equal"     -> "passed"
    [] st = "different" -> IF ShouldUpdate(ci, upd, updvar) THEN "updated" ELSE "failed"

Writes(out) == out \in {"added", "updated"}

\* C05 stated on the table itself (checked exhaustively by MC_Mode)
ReadOnlyOnCI ==
  \A upd \in UpdOpts, uv \in UpdVars, st \in {"missing", "equal", "different"}, so \in BOOLEAN :
     /\ ~Writes(Outcome(TRUE, upd, uv, st))
     /\ ~CleanDeletes(TRUE, uv) /\ ~CleanSorts(TRUE, so)
     /\ Outcome(TRUE, upd, uv, "missing") = "failed"
UpdateFalseForbids ==
  \A uv \in UpdVars, st \in {"missing", "different"} : ~Writes(Outcome(FALSE, "false", uv, st))
UpdateTrueAllows ==
  \A uv \in UpdVars, st \in {"missing", "different"} : Writes(Outcome(FALSE, "true", uv, st))
UnsetFollowsEnv ==
  \A uv \in UpdVars :
     /\ Outcome(FALSE, "unset", uv, "missing") = "added"
     /\ (Outcome(FALSE, "unset", uv, "different") = "updated") <=> (uv = "true")
     /\ CleanDeletes(FALSE, uv) <=> (uv \in {"true", "clean"})
TableOK == ReadOnlyOnCI /\ UpdateFalseForbids /\ UpdateTrueAllows /\ UnsetFollowsEnv
=============================================================================
