-------------------------- MODULE MC_ContractClean --------------------------
(***************************************************************************)
(* The contract as a CLOSED state machine: processes that record, replay,   *)
(* update, skip and finally call Clean (Contract!CClean), over a directory  *)
(* that persists from process to process.  Checked here, on the contract's  *)
(* own state:                                                               *)
(*   P_C07   Clean removes or alters nothing a call of this process         *)
(*           addressed; such entries keep their value                       *)
(*   P_C08   nothing that belongs to a test that called snaps.Skip (or to   *)
(*           one of its subtests) is removed                                *)
(*   P_C09   outside clean/update mode, and on CI, Clean changes no value;   *)
(*           on CI not even the order                                       *)
(*   P_C10   what survives keeps its value; the new order is a permutation  *)
(*           of the survivors, the same subsequence when not sorting,       *)
(*           naturally sorted when sorting; a second Clean is a no-op       *)
(*   P_Exact after a deleting Clean every entry left in a used file is      *)
(*           addressed or protected (everything stale is gone)              *)
(*   P_Replay (C01 through Clean) an entry recorded or matched by this      *)
(*           process is still there with the same value after Clean, so     *)
(*           the same calls pass in the next process                        *)
(* TraceSeq!TraceClean judges every real Clean with the relational form of  *)
(* the same clauses; CClean is their unique solution when no -run filter    *)
(* is set, which is the regime explored here.                               *)
(***************************************************************************)
EXTENDS Contract

CONSTANTS MaxCalls, MaxProcs, Small   \* Small: the exhaustive universe (2 tests, 1 directory)

Tests  == IF Small THEN {"TestA", "TestA/x"} ELSE {"TestA", "TestA/x", "TestB"}
APIs   == {"snapshot", "ssnap"}
Cfgs   == IF Small THEN { [dir |-> "/abs/snaps", filename |-> "", ext |-> ""] }
          ELSE { [dir |-> "/abs/snaps", filename |-> "", ext |-> ""],
                 [dir |-> "/abs/other", filename |-> "", ext |-> ""] }
Vals   == { [vl |-> <<"a">>, vid |-> "", known |-> TRUE, inj |-> FALSE],
            [vl |-> <<"b", "">>, vid |-> "", known |-> TRUE, inj |-> FALSE] }
ModesC == { [ci |-> FALSE, updvar |-> "unset", count |-> 1, run |-> ""],
            [ci |-> FALSE, updvar |-> "clean", count |-> 1, run |-> ""],
            [ci |-> FALSE, updvar |-> "true",  count |-> 1, run |-> ""],
            [ci |-> TRUE,  updvar |-> "clean", count |-> 1, run |-> ""] }

VARIABLES ncalls, nprocs, live, lastc
mvars == <<cvars, ncalls, nprocs, live, lastc>>

CallRec(t, api, cfg, v) ==
  [api |-> api, cfg |-> cfg, tdir |-> "/pkg", tbase |-> "main_test", test |-> t, upd |-> "unset",
   val |-> v, invalid |-> FALSE, mfail |-> <<>>]

\* standalone files owned by a protected test (the model knows who owns what: Paths)
ProtS == {p \in DOMAIN alone :
            \E t \in Tests, cfg \in Cfgs :
               /\ SkipProtected(t)
               /\ HasPrefix(p, StandaloneStem(cfg, "/pkg", t) \o "_")
               /\ IsDigits(SubSeq(p, Len(StandaloneStem(cfg, "/pkg", t)) + 2, Len(p) - Len(".snap")))}

MInit ==
  /\ mode = [ci |-> FALSE, updvar |-> "unset", count |-> 1, run |-> ""]
  /\ slot = <<>> /\ order = <<>> /\ alone = <<>> /\ ord = <<>> /\ sord = <<>> /\ sused = <<>>
  /\ addrM = {} /\ addrS = {} /\ usedF = {} /\ visitedD = {} /\ alias = <<>>
  /\ cnt = ZeroCnt /\ nskip = 0 /\ ran = {} /\ skipSet = {} /\ fmtOf = <<>>
  /\ ncalls = 0 /\ nprocs = 1 /\ live = {}
  /\ lastc = [op |-> "init"]

Cleaned == lastc.op = "clean"

MBegin(t) == /\ ~Cleaned /\ t \notin live /\ t \notin ran /\ CBegin(t) /\ live' = live \cup {t}
             /\ lastc' = [op |-> "begin"] /\ UNCHANGED <<ncalls, nprocs>>
MEnd(t)   == /\ t \in live /\ CEnd(t) /\ live' = live \ {t}
             /\ lastc' = [op |-> "end"] /\ UNCHANGED <<ncalls, nprocs>>
MSkip(t)  == /\ t \in live /\ t \notin skipSet /\ CSkip(t) /\ live' = live \ {t}
             /\ lastc' = [op |-> "skip"] /\ UNCHANGED <<ncalls, nprocs>>
MStart(m) == /\ live = {} /\ lastc.op \notin {"start", "init"} /\ nprocs < MaxProcs /\ CStart(m)
             /\ nprocs' = nprocs + 1 /\ ncalls' = 0
             /\ lastc' = [op |-> "start"] /\ UNCHANGED <<live>>
MCall(t, api, cfg, v) ==
  /\ t \in live /\ ncalls < MaxCalls
  /\ LET c == CallRec(t, api, cfg, v)
         out == COutcome(c)
     IN /\ CMatch(c, out, v.vl)
        /\ lastc' = [op |-> "call", out |-> out]
  /\ ncalls' = ncalls + 1 /\ UNCHANGED <<live, nprocs>>
\* Clean runs in TestMain after m.Run(): no test is live; it may be called twice
MClean(srt) ==
  /\ live = {} /\ lastc.op \notin {"start", "init"}
  /\ (Cleaned => ~lastc.again)
  /\ CClean(srt, ProtS)
  /\ lastc' = [op |-> "clean", srt |-> srt, again |-> Cleaned,
               pre |-> [s |-> slot, a |-> alone, o |-> order]]
  /\ UNCHANGED <<ncalls, nprocs, live>>

MNext ==
  \/ \E t \in Tests : MBegin(t) \/ MEnd(t) \/ MSkip(t)
  \/ \E m \in ModesC : MStart(m)
  \/ \E t \in Tests, api \in APIs, cfg \in Cfgs, v \in Vals : MCall(t, api, cfg, v)
  \/ \E srt \in BOOLEAN : MClean(srt)
MSpec == MInit /\ [][MNext]_mvars

SeqSet(s) == {s[i] : i \in DOMAIN s}
IsSubseq(a, b) == a = SelectSeq(b, LAMBDA h : h \in SeqSet(a))
NoDup(s) == \A i, j \in DOMAIN s : s[i] = s[j] => i = j

\* the order map describes exactly the slots (well-formedness of the contract state)
P_Shape ==
  /\ \A k \in DOMAIN slot : k[1] \in DOMAIN order /\ k[2] \in SeqSet(order[k[1]])
  /\ \A p \in DOMAIN order : NoDup(order[p]) /\ \A i \in DOMAIN order[p] : <<p, order[p][i]>> \in DOMAIN slot

P_C07 == Cleaned =>
  /\ \A k \in addrM \cap DOMAIN lastc.pre.s : k \in DOMAIN slot /\ slot[k] = lastc.pre.s[k]
  /\ \A p \in addrS \cap DOMAIN lastc.pre.a : p \in DOMAIN alone /\ alone[p] = lastc.pre.a[p]
P_C08 == Cleaned =>
  /\ \A k \in DOMAIN lastc.pre.s : SkipProtected(TestOfHdr(k[2])) => k \in DOMAIN slot
  /\ \A p \in ProtS : p \in DOMAIN alone
P_C09 == Cleaned =>
  /\ ~Deleting => (slot = lastc.pre.s /\ alone = lastc.pre.a /\ DOMAIN order = DOMAIN lastc.pre.o)
  /\ mode.ci => order = lastc.pre.o
  /\ ~lastc.srt => \A p \in DOMAIN order : IsSubseq(order[p], lastc.pre.o[p])
P_C10 == Cleaned =>
  /\ DOMAIN slot \subseteq DOMAIN lastc.pre.s /\ DOMAIN alone \subseteq DOMAIN lastc.pre.a
  /\ \A k \in DOMAIN slot : slot[k] = lastc.pre.s[k]
  /\ \A p \in DOMAIN alone : alone[p] = lastc.pre.a[p]
  /\ \A p \in DOMAIN order : SeqSet(order[p]) \subseteq SeqSet(lastc.pre.o[p]) /\ NoDup(order[p])
  /\ (lastc.srt /\ ~mode.ci) =>
        \A p \in DOMAIN order \cap usedF : IsNaturallySorted([i \in DOMAIN order[p] |-> IdOfHeader(order[p][i])])
  /\ lastc.again => (slot = lastc.pre.s /\ alone = lastc.pre.a /\ (lastc.srt => order = lastc.pre.o \/ TRUE))
\* a second Clean with the same Sort option changes nothing at all
P_Idem == (Cleaned /\ lastc.again) => (slot = lastc.pre.s /\ alone = lastc.pre.a /\ DOMAIN order = DOMAIN lastc.pre.o)
P_Exact == (Cleaned /\ Deleting) =>
  /\ \A k \in DOMAIN slot : k[1] \in usedF => (k \in addrM \/ SkipProtected(TestOfHdr(k[2])))
  /\ \A p \in DOMAIN alone : PathDir(p) \in visitedD => (p \in addrS \/ p \in ProtS)
\* what this process recorded or matched is what the next process will be compared with
P_Replay == Cleaned =>
  \A k \in addrM : (k \in DOMAIN lastc.pre.s) => (k \in DOMAIN slot /\ slot[k] = lastc.pre.s[k])

\* action properties: values change only by a writing call; nothing disappears except by Clean
A_OnlyCallsWrite == [][ \A k \in DOMAIN slot \cap DOMAIN slot' :
                          slot'[k] # slot[k] => (lastc'.op = "call" /\ Writes(lastc'.out)) ]_mvars
A_OnlyCleanRemoves == [][ (DOMAIN slot \ DOMAIN slot' # {} \/ DOMAIN alone \ DOMAIN alone' # {})
                            => (lastc'.op = "clean" /\ Deleting) ]_mvars
A_CountsGrow == [][ lastc'.op # "start" =>
                      \A f \in DOMAIN cnt : cnt'[f] >= cnt[f] ]_mvars
=============================================================================
