SPECIFICATION Spec
INVARIANTS P_Outcomes P_Final P_Completed
CHECK_DEADLOCK FALSE
