------------------------------- MODULE Paths --------------------------------
(***************************************************************************)
(* Snapshot location as a pure function (C11, C12).                         *)
(*   cfg   = [dir, filename, ext]   options the Config was BUILT with;      *)
(*           dir = "" means unset (default "__snapshots__"), filename = ""  *)
(*           unset, ext = "" unset                                          *)
(*   tdir  = directory of the calling test file, tbase = its base name      *)
(*           without ".go" (e.g. "main_test")                               *)
(* Code anchors: snapshot.go snapshotPath / constructFilename,              *)
(* matchStandaloneJSON.go (default ".json").                                *)
(* Paths are strings with "/" separators; generated option values contain   *)
(* no ".", ".." or doubled separators, so filepath.Join is concatenation.   *)
(***************************************************************************)
EXTENDS Lines

IsAbs(d) == Len(d) > 0 /\ Char(d, 1) = "/"

DirOf(cfg, tdir) ==
  LET d == IF cfg.dir = "" THEN "__snapshots__" ELSE cfg.dir
  IN  IF IsAbs(d) THEN d ELSE tdir \o "/" \o d

StandaloneAPIs == {"ssnap", "sjson"}
IsStandalone(api) == api \in StandaloneAPIs

ExtOf(cfg, api) == IF api = "sjson" /\ cfg.ext = "" THEN ".json" ELSE cfg.ext

\* multi-entry file
MultiPath(cfg, tdir, tbase) ==
  DirOf(cfg, tdir) \o "/" \o (IF cfg.filename = "" THEN tbase ELSE cfg.filename) \o ".snap" \o cfg.ext

\* the name part shared by all standalone files of one (cfg, test): everything before "_<k>"
StandaloneStem(cfg, tdir, test) ==
  DirOf(cfg, tdir) \o "/" \o (IF cfg.filename = "" THEN ReplaceChar(test, "/", "_") ELSE cfg.filename)

StandalonePath(cfg, tdir, test, api, k) ==
  StandaloneStem(cfg, tdir, test) \o "_" \o ToString(k) \o ".snap" \o ExtOf(cfg, api)

\* key of the standalone ordinal counter: the path pattern
StandaloneKey(cfg, tdir, test, api) ==
  StandaloneStem(cfg, tdir, test) \o "_%d.snap" \o ExtOf(cfg, api)
=============================================================================
