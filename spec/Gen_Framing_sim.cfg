SPECIFICATION Spec
CONSTANTS
  Tests = {"TestA", "TestAB"}
  MaxK = 3
  Alphabet <- mcAlpha8
  MaxBody = 2
  MaxOps = 6
  Modes = {"create", "ci", "update", "noupd"}
  InitFiles <- mcInitFiles
  ExcludeKnown = TRUE
  EmitHist = TRUE
  Plan <- mcNoPlan
CHECK_DEADLOCK FALSE
