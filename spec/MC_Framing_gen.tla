--------------------------- MODULE MC_Framing_gen ---------------------------
(* constants that a .cfg file cannot express (sequences, records) *)
EXTENDS MC_Framing
mcEmpty == {EmptyFile}
mcInitFiles ==
  { EmptyFile,
    [lines |-> <<"", "[TestA - 1]", "a", "---">>, nl |-> TRUE],
    [lines |-> <<"[TestAB - 1]", "", "---", "", "[TestA - 2]", "b", "---">>, nl |-> FALSE],
    [lines |-> <<"", "[TestZ - 1]", "/-/-/-/", "---", "", "", "[TestA - 1]", "a", "b", "---">>, nl |-> TRUE] }
mcNoPlan == <<>>
mcPlanPair == <<"match", "proc", "match">>
mcPlanPairEnd == <<"match", "end", "match">>
mcPlanTwoThenOne == <<"match", "match", "proc", "match">>
mcAlphaSfx == {"a", "b", "see [TestAB - 1]", "[TestAB - 1] x"}
mcAlpha3 == {"a", "---", "/-/-/-/"}
mcAlpha4 == {"", "a", "---", "/-/-/-/"}
mcAlpha6 == {"", "a", "b", "---", "/-/-/-/", "[TestAB - 1]"}
\* incl. lines that END or START with a header text without being one (unanchored searches)
mcAlpha8 == {"", "a", "see [TestAB - 1]", "---", "/-/-/-/", "[TestAB - 1]", "--- ", "[TestAB - 1] x"}
=============================================================================
