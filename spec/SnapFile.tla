----------------------------- MODULE SnapFile ------------------------------
(***************************************************************************)
(* The multi-entry snapshot file format as go-snaps implements it, over     *)
(* sequences of lines (what bufio.ScanLines yields).  A file is a record    *)
(* [lines |-> Seq(STRING), nl |-> BOOLEAN] where nl says whether the bytes  *)
(* end in a newline; bytes = lines joined by "\n" (+ "\n" if nl).            *)
(*                                                                          *)
(* Every scanner is a left fold with explicit scanner state, mirroring the  *)
(* code's `for s.Scan()` loops one line at a time:                          *)
(*   ReadEntry     getPrevSnapshot   snapshot.go:208                        *)
(*   AppendEntry   addNewSnapshot    snapshot.go:247                        *)
(*   RewriteEntry  updateSnapshot + removeSnapshot  snapshot.go:262,312     *)
(*   CleanScan / CleanRewrite   examineSnaps   clean.go:217                 *)
(* Parse is the *reference* entry-aware parse used as refinement mapping    *)
(* from files to the contract's slots; it is not what the code does.        *)
(***************************************************************************)
EXTENDS Lines

EmptyFile == [lines |-> <<>>, nl |-> FALSE]

(***************************************************************************)
(* Reference parse.  Outside an entry blank lines are skipped and any other *)
(* line is a header; inside, lines up to the first END form the body.       *)
(***************************************************************************)
ParseInit == [m |-> <<>>, order |-> <<>>, hdr |-> "", body |-> <<>>, inb |-> FALSE,
              dup |-> FALSE]

ParseStep(a, line) ==
  IF ~a.inb THEN
       IF line = "" THEN a ELSE [a EXCEPT !.hdr = line, !.body = <<>>, !.inb = TRUE]
  ELSE IF line = END THEN
       [a EXCEPT !.m     = Append(a.m, [h |-> a.hdr, b |-> a.body]),
                 !.order = Append(a.order, a.hdr),
                 !.dup   = a.dup \/ (\E i \in DOMAIN a.order : a.order[i] = a.hdr),
                 !.hdr = "", !.body = <<>>, !.inb = FALSE]
  ELSE [a EXCEPT !.body = Append(a.body, line)]

\* result: entries in file order, and whether the file is exactly a sequence of frames
Parse(f) ==
  LET r == FoldLeft(ParseStep, ParseInit, f.lines)
  IN  [entries |-> r.m, order |-> r.order, wellformed |-> ~r.inb /\ ~r.dup,
       hs |-> {r.m[i].h : i \in DOMAIN r.m}]

HasEntry(p, h)  == \E i \in DOMAIN p.entries : p.entries[i].h = h
BodyOf(p, h)    == LET i == CHOOSE i \in DOMAIN p.entries : p.entries[i].h = h IN p.entries[i].b

(***************************************************************************)
(* getPrevSnapshot: the first line *anywhere* that equals the header starts *)
(* the capture (ReadFirstWholeLineMatch -- body lines are not skipped);     *)
(* capture runs to the first END.  A header whose capture never reaches END *)
(* does not count, and the outer loop is exhausted by the inner one.        *)
(***************************************************************************)
ReadStep(h, a, line) ==
  CASE a.st = "seek" -> IF line = h THEN [a EXCEPT !.st = "cap", !.at = a.n + 1, !.n = a.n + 1]
                                    ELSE [a EXCEPT !.n = a.n + 1]
    [] a.st = "cap"  -> IF line = END THEN [a EXCEPT !.st = "done"]
                                      ELSE [a EXCEPT !.body = Append(a.body, line)]
    [] OTHER         -> a

\* body: the stored lines; an empty capture reads as the empty string, i.e. <<"">>
ReadEntry(f, h) ==
  LET r == FoldLeft(LAMBDA a, line : ReadStep(h, a, line),
                    [st |-> "seek", body |-> <<>>, n |-> 0, at |-> 0], f.lines)
  IN  [found |-> r.st = "done",
       body  |-> IF r.body = <<>> THEN <<"">> ELSE r.body,
       line  |-> r.at]

(***************************************************************************)
(* addNewSnapshot: Fprintf("\n%s\n%s\n---\n") in O_APPEND mode.  If the     *)
(* file does not end in a newline the leading "\n" terminates its last line *)
(* instead of producing a blank one.                                        *)
(***************************************************************************)
AppendEntry(f, h, stored) ==
  [lines |-> (IF f.lines = <<>> \/ f.nl THEN f.lines \o <<"">> ELSE f.lines)
             \o <<h>> \o stored \o <<END>>,
   nl    |-> TRUE]

(***************************************************************************)
(* updateSnapshot: copy every line through; after *every* line equal to the *)
(* header skip to the next END (removeSnapshot) and emit the new body.      *)
(***************************************************************************)
RewriteStep(h, new, a, line) ==
  IF a.skip THEN (IF line = END THEN [a EXCEPT !.skip = FALSE] ELSE a)
  ELSE IF line = h THEN [out |-> a.out \o <<line>> \o new \o <<END>>, skip |-> TRUE]
  ELSE [a EXCEPT !.out = Append(a.out, line)]

RewriteEntry(f, h, new) ==
  [lines |-> FoldLeft(LAMBDA a, line : RewriteStep(h, new, a, line),
                      [out |-> <<>>, skip |-> FALSE], f.lines).out,
   nl    |-> f.lines # <<>>]

(***************************************************************************)
(* examineSnaps.  Live(id) says whether Clean considers the id registered   *)
(* or skip-protected.  Only IsCleanHeader lines are seen                    *)
(* (CleanRecognisesOnlyTestPrefix); other lines outside a capture are       *)
(* dropped by any rewrite.  Stale entries are skipped when `delete`, kept   *)
(* otherwise; bodies are keyed by id (later duplicates overwrite).          *)
(***************************************************************************)
CleanStep(Live(_), delete, a, line) ==
  CASE a.st = "scan" ->
         IF ~IsCleanHeader(line) THEN a
         ELSE LET id == IdOfHeader(line) IN
              IF ~Live(id)
              THEN [a EXCEPT !.ids = Append(a.ids, id), !.stale = Append(a.stale, id),
                             !.st = IF delete THEN "skip" ELSE "cap", !.cur = id, !.body = <<>>]
              ELSE [a EXCEPT !.ids = Append(a.ids, id), !.st = "cap", !.cur = id, !.body = <<>>]
    [] a.st = "skip" -> IF line = END THEN [a EXCEPT !.st = "scan"] ELSE a
    [] a.st = "cap"  ->
         IF line = END
         THEN [a EXCEPT !.st = "scan",
                        !.tests = [x \in DOMAIN a.tests \cup {a.cur} |->
                                     IF x = a.cur THEN a.body ELSE a.tests[x]]]
         ELSE [a EXCEPT !.body = Append(a.body, line)]

CleanScan(f, Live(_), delete) ==
  FoldLeft(LAMBDA a, line : CleanStep(Live, delete, a, line),
           [st |-> "scan", ids |-> <<>>, stale |-> <<>>, tests |-> <<>>, cur |-> "", body |-> <<>>],
           f.lines)

\* Sorting by natural order (insertion sort as a fold; stable like slices.SortFunc is not
\* required to be -- ids in a well-formed file are unique)
InsertSorted(sorted, id) ==
  LET pos == {i \in 1..Len(sorted) : NaturalLess(id, sorted[i])}
      p   == IF pos = {} THEN Len(sorted) + 1 ELSE CHOOSE i \in pos : \A j \in pos : i <= j
  IN  SubSeq(sorted, 1, p - 1) \o <<id>> \o SubSeq(sorted, p, Len(sorted))
SortIds(ids) == FoldLeft(InsertSorted, <<>>, ids)

\* the file examineSnaps leaves behind
CleanFile(f, Live(_), delete, sort) ==
  LET sc         == CleanScan(f, Live, delete)
      shouldSort == sort /\ ~IsNaturallySorted(sc.ids)
      shouldUpd  == delete /\ sc.stale # <<>>
      ids        == IF shouldSort THEN SortIds(sc.ids) ELSE sc.ids
      frames     == FoldLeft(LAMBDA acc, id :
                               IF id \in DOMAIN sc.tests
                               THEN acc \o <<"", "[" \o id \o "]">> \o sc.tests[id] \o <<END>>
                               ELSE acc,
                             <<>>, ids)
  IN  [stale   |-> sc.stale,
       rewrite |-> shouldSort \/ shouldUpd,
       file    |-> IF shouldSort \/ shouldUpd THEN [lines |-> frames, nl |-> frames # <<>>] ELSE f]

=============================================================================
