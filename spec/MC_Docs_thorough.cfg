SPECIFICATION Spec
CONSTANTS
  DocSet <- mcDocs
  Matchers <- mcMatchers
  MaxMs = 3
  EmitCases = FALSE
INVARIANTS OnlyTargetsChange FailuresNamed
CHECK_DEADLOCK FALSE
