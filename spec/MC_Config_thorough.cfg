SPECIFICATION Spec
CONSTANTS
  OptSets <- mcOptSets
  MaxLen = 4
  StandaloneJSONDefaultsExtInReceiver = FALSE
  EmitSeqs = TRUE
INVARIANTS ConfigImmutable LocationFromBuiltOptions
CHECK_DEADLOCK FALSE
