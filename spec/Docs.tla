-------------------------------- MODULE Docs --------------------------------
(***************************************************************************)
(* Abstract documents and matchers (C15, C16, C17).                         *)
(*                                                                          *)
(* A document is a function from a fixed set of leaf paths to raw scalar    *)
(* tokens (JSON spelling) or Absent; the shape is                           *)
(*    { "a": _, "b": _, "n": { "x": _, "xy": _ }, "l": [ _, _ ] }            *)
(* A matcher is [m, p, ph, eomp, t, err]:                                   *)
(*    m    "any" | "type" | "custom"                                        *)
(*    p    the path it targets (possibly one no document has)               *)
(*    ph   placeholder token (any: Placeholder(..), custom: callback result)*)
(*    eomp ErrOnMissingPath                                                 *)
(*    t    expected type of a Type matcher                                  *)
(*    err  the Custom callback returns an error                             *)
(* Code anchors: match/any.go, match/type.go, match/custom.go,              *)
(* snaps/matchJSON.go applyJSONMatchers (a failing matcher leaves the       *)
(* document as it was; later matchers still run; every failure is named).   *)
(***************************************************************************)
EXTENDS Naturals, Sequences, FiniteSets, TLC

Paths  == {"a", "b", "n.x", "n.xy", "l.0", "l.1"}
Absent == "absent"

TypeOf(v) ==
  CASE v = "null"                          -> "nil"
    [] v \in {"true", "false"}             -> "bool"
    [] SubSeq(v, 1, 1) = "\""              -> "string"
    [] SubSeq(v, 1, 1) = "{"               -> "map[string]interface {}"
    [] SubSeq(v, 1, 1) = "["               -> "[]interface {}"
    [] OTHER                               -> "float64"

Has(d, p) == p \in DOMAIN d /\ d[p] # Absent

TypePlaceholder(v) == "\"<Type:" \o (IF TypeOf(v) = "nil" THEN "<nil>" ELSE TypeOf(v)) \o ">\""

\* one matcher: [d |-> document afterwards, errs |-> failures it reports]
Apply1(m, d) ==
  IF ~Has(d, m.p)
  THEN [d |-> d, errs |-> IF m.eomp THEN << <<m.name, m.p>> >> ELSE <<>>]
  ELSE CASE m.m = "any"    -> [d |-> [d EXCEPT ![m.p] = m.ph], errs |-> <<>>]
         [] m.m = "type"   -> IF TypeOf(d[m.p]) = m.t
                              THEN [d |-> [d EXCEPT ![m.p] = TypePlaceholder(d[m.p])], errs |-> <<>>]
                              ELSE [d |-> d, errs |-> << <<m.name, m.p>> >>]
         [] m.m = "custom" -> IF m.err THEN [d |-> d, errs |-> << <<m.name, m.p>> >>]
                              ELSE [d |-> [d EXCEPT ![m.p] = m.ph], errs |-> <<>>]

\* matchers take effect left to right
RECURSIVE ApplyAll(_, _)
ApplyAll(ms, d) ==
  IF ms = <<>> THEN [d |-> d, errs |-> <<>>]
  ELSE LET r1 == Apply1(ms[1], d)
           rr == ApplyAll(Tail(ms), r1.d)
       IN  [d |-> rr.d, errs |-> r1.errs \o rr.errs]

\* paths a matcher sequence covers when every matcher is satisfied
Masked(ms) == {ms[i].p : i \in DOMAIN ms}

Agree(d1, d2, S) == \A p \in S : d1[p] = d2[p]
=============================================================================
