SPECIFICATION Spec
CONSTANTS
  Ids <- mcIds
  MaxEntries = 3
  BodyOf1 <- mcBody
  LiveSets <- mcLive
  ExcludeKnown = TRUE
  EmitCases = FALSE
INVARIANTS P_C07 P_C09 P_C10
CHECK_DEADLOCK FALSE
