--------------------------- MODULE MC_Config_gen ----------------------------
EXTENDS MC_Config
mcOptSets == { [dir |-> "/abs/snaps", filename |-> "", ext |-> ""],
               [dir |-> "/abs/snaps", filename |-> "custom", ext |-> ""],
               [dir |-> "/abs/snaps", filename |-> "", ext |-> ".txt"],
               [dir |-> "/abs/snaps", filename |-> "custom", ext |-> ".txt"] }
=============================================================================
