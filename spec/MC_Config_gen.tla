--------------------------- MODULE MC_Config_gen ----------------------------
EXTENDS MC_Config
mcOptSets == { [dir |-> "/abs/snaps", filename |-> "", ext |-> ""],
               [dir |-> "/abs/snaps", filename |-> "custom", ext |-> ""],
               [dir |-> "/abs/snaps", filename |-> "", ext |-> ".txt"],
               [dir |-> "/abs/snaps", filename |-> "custom", ext |-> ".txt"],
               [dir |-> "/abs/snaps", filename |-> "", ext |-> "html"] }   \* an extension without a dot is used as given
=============================================================================
