------------------------------ MODULE ApaMode -------------------------------
EXTENDS Mode
VARIABLE
  \* @type: Bool;
  x
Init == x = TRUE
Next == x' = x
Inv == TableOK
=============================================================================
