------------------------------ MODULE MC_Paths ------------------------------
(***************************************************************************)
(* C11: the location function, enumerated over its whole configuration      *)
(* domain.  Each cell (Dir kind x Filename x Ext x API x call shape x       *)
(* driver variant x working directory) is one state; TLC checks the         *)
(* algebraic facts the property states about Paths!PathOf and prints every  *)
(* cell with the location the contract expects, which the orchestrator runs *)
(* on the real code (with and without -trimpath, from the package directory *)
(* and from a foreign one, from a sub-package two levels deep).             *)
(***************************************************************************)
EXTENDS Paths, Json

DirKinds == {"unset", "rel", "nested", "abs",
             "dotrel"}   \* "./relsnaps": a relative Dir is joined to the test file's directory and cleaned, whatever its spelling
Shapes   == {"direct", "helper1", "helper3", "closure", "nontest", "nontest2", "deep40", "deep100", "subtest", "subtest2",
             "otherfile",   \* through a helper declared in another *_test.go file of the package
             "dotfile"}     \* ... whose name has a dot of its own (pay.v2_test.go)
Variants == {"", "trimpath", "deep", "deep-trimpath",
             "envtrimpath"}   \* plain build, GOFLAGS=-trimpath in the environment of the test run
Cwds     == {"pkg", "foreign"}
APIs     == {"snapshot", "json", "yaml", "ssnap", "sjson"}

VARIABLES cell, emitted
vars == <<cell, emitted>>

Cells == {c \in [dir : DirKinds, filename : {"", "custom"}, ext : {"", ".txt"}, api : APIs, shape : Shapes,
                 variant : Variants, cwd : Cwds] :
            \* -trimpath builds are only run from the package directory (documented limitation)
            ~(c.cwd = "foreign" /\ c.variant \in {"trimpath", "deep-trimpath", "envtrimpath"})}

DirVal(k) == CASE k = "unset" -> "" [] k \in {"rel", "dotrel"} -> "relsnaps" [] k = "nested" -> "nested/rel/dir" [] OTHER -> "/ABS/abs/snaps"
CfgOf(c)  == [dir |-> DirVal(c.dir), filename |-> c.filename, ext |-> c.ext]
TDirOf(c) == IF c.variant \in {"deep", "deep-trimpath"} THEN "/PKG/sub/deep" ELSE "/PKG"
\* the calling test file is the innermost *_test.go frame
TBaseOf(c) == CASE c.shape = "otherfile" -> "other_test" [] c.shape = "dotfile" -> "pay.v2_test" [] OTHER -> "main_test"
TestOf(c) == CASE c.shape = "subtest" -> "TestA/x" [] c.shape = "subtest2" -> "TestA/x/y" [] OTHER -> "TestA"
Loc(c) == IF IsStandalone(c.api) THEN StandalonePath(CfgOf(c), TDirOf(c), TestOf(c), c.api, 1)
          ELSE MultiPath(CfgOf(c), TDirOf(c), TBaseOf(c))

Init == cell \in Cells /\ emitted = FALSE
Next == /\ ~emitted /\ PrintT("@@" \o ToJson([cell |-> cell, loc |-> Loc(cell)]))
        /\ emitted' = TRUE /\ UNCHANGED cell
Spec == Init /\ [][Next]_vars

\* the location does not depend on call shape, working directory or -trimpath
ShapeCwdTrimpathIrrelevant ==
  \A c2 \in Cells :
     (c2.dir = cell.dir /\ c2.filename = cell.filename /\ c2.ext = cell.ext /\ c2.api = cell.api
      /\ TDirOf(c2) = TDirOf(cell) /\ TestOf(c2) = TestOf(cell) /\ TBaseOf(c2) = TBaseOf(cell)) => Loc(c2) = Loc(cell)
\* an absolute Dir wins over the test file's directory; otherwise the location is below it
DirRule == IF cell.dir = "abs" THEN HasPrefix(Loc(cell), "/ABS/abs/snaps/")
           ELSE HasPrefix(Loc(cell), TDirOf(cell) \o "/")
\* name and extension rules
NameRule ==
  /\ IsStandalone(cell.api) => StrContains(Loc(cell), "_1.snap")
  /\ (cell.api = "sjson" /\ cell.ext = "") => HasSuffix(Loc(cell), ".snap.json")
  /\ cell.ext # "" => HasSuffix(Loc(cell), ".snap" \o cell.ext)
  /\ (~IsStandalone(cell.api) /\ cell.filename = "") => StrContains(Loc(cell), "/" \o TBaseOf(cell) \o ".snap")
  /\ (IsStandalone(cell.api) /\ cell.filename = "" /\ cell.shape = "subtest2") => StrContains(Loc(cell), "/TestA_x_y_1.snap")
=============================================================================
