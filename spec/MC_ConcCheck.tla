---------------------------- MODULE MC_ConcCheck ----------------------------
(***************************************************************************)
(* C06 judged on REAL concurrent executions (gated schedules replayed or    *)
(* enumerated on the real code): every case holds the initial file, the     *)
(* calls with the outcome each one signalled, and the final file.           *)
(***************************************************************************)
EXTENDS SnapFile, Json

Cases == ndJsonDeserialize("conccases.ndjson")
VARIABLES i
Init == i \in DOMAIN Cases
Next == UNCHANGED i
Spec == Init /\ [][Next]_<<i>>

C == Cases[i]
P0 == Parse([lines |-> C.init.lines, nl |-> C.init.nl])
P1 == Parse([lines |-> C.final.lines, nl |-> C.final.nl])
Calls == {k \in DOMAIN C.calls : TRUE}
HdrC(k) == Hdr(C.calls[k].t, C.calls[k].k)
StoredC(k) == Escape(C.calls[k].v)
KindC(k) ==
  IF HdrC(k) \notin P0.hs THEN "create"
  ELSE IF Unescape(BodyOf(P0, HdrC(k))) = Unescape(StoredC(k)) THEN "match"
  ELSE IF C.calls[k].upd THEN "update" ELSE "mismatch"
Expect(kd) == CASE kd = "create" -> "added" [] kd = "match" -> "passed" [] kd = "update" -> "updated" [] OTHER -> "failed"

\* every call got the outcome of a serial execution
P_Outcomes == \A k \in Calls : C.calls[k].out = Expect(KindC(k))
\* the final file is well-formed and holds exactly one entry per slot with the right value
P_Final ==
  /\ P1.wellformed
  /\ P1.hs = P0.hs \cup {HdrC(k) : k \in {k \in Calls : KindC(k) = "create"}}
  /\ Len(P1.entries) = Cardinality(P1.hs)
  /\ \A h \in P1.hs :
       IF \E k \in Calls : HdrC(k) = h /\ KindC(k) \in {"create", "update"}
       THEN BodyOf(P1, h) = StoredC(CHOOSE k \in Calls : HdrC(k) = h)
       ELSE BodyOf(P1, h) = BodyOf(P0, h)
\* the run ended (no deadlock / stuck goroutine under the gate)
P_Completed == C.note = ""
=============================================================================
