------------------------------- MODULE MC_Docs ------------------------------
(***************************************************************************)
(* C15-C17 on the abstract matcher semantics, exhaustively within bounds,   *)
(* and generation of (document, matcher sequence) cases with what the       *)
(* contract expects: the failures to be named, or the masked document.      *)
(* The expected values printed here ARE the oracle of the conformance run.  *)
(***************************************************************************)
EXTENDS Docs, Json

CONSTANTS DocSet, Matchers, MaxMs, EmitCases

\* res = R(case), computed once per case (TLC re-evaluates operators at every reference).
\* Initial states only choose the document; the matcher sequence is chosen by a step, so that the
\* cases are generated and judged by all TLC workers (initial states are processed by one thread).
VARIABLES doc, picked, case, res, emitted
vars == <<doc, picked, case, res, emitted>>

MSeqs == UNION {[1..n -> Matchers] : n \in 0..MaxMs}
Cases == [d : DocSet, ms : MSeqs]

R(c) == ApplyAll(c.ms, c.d)

Init == /\ doc \in DocSet /\ picked = FALSE
        /\ case = [d |-> doc, ms |-> <<>>] /\ res = R(case) /\ emitted = FALSE
Pick == /\ ~picked /\ picked' = TRUE
        /\ \E ms \in MSeqs : case' = [d |-> doc, ms |-> ms]
        /\ res' = R(case')
        /\ UNCHANGED <<doc, emitted>>
Emit == /\ EmitCases /\ picked /\ ~emitted
        /\ PrintT("@@" \o ToJson([d |-> case.d, ms |-> case.ms, out |-> res.d, errs |-> res.errs]))
        /\ emitted' = TRUE /\ UNCHANGED <<doc, picked, case, res>>
Next == Pick \/ Emit
Spec == Init /\ [][Next]_vars

\* C15: a matcher sequence changes only what it targets
OnlyTargetsChange == \A p \in Paths \ Masked(case.ms) : res.d[p] = case.d[p]

\* C17: no failure => every targeted, present path was replaced; a failing matcher leaves its path
\* unless another, successful matcher replaced it
\* C16: two documents that agree outside the masked paths and both satisfy the matchers yield the
\* same masked document; documents that differ at an unmasked path never do
MaskedIndependence ==
  \A d2 \in DocSet :
     LET r1 == res  r2 == ApplyAll(case.ms, d2) IN
     (r1.errs = <<>> /\ r2.errs = <<>>) =>
        /\ (Agree(case.d, d2, Paths \ Masked(case.ms)) /\ \A p \in Masked(case.ms) : Has(case.d, p) = Has(d2, p)
               /\ \A i \in DOMAIN case.ms : case.ms[i].m = "type" => TypeOf(case.d[case.ms[i].p]) = TypeOf(d2[case.ms[i].p]))
           => r1.d = r2.d
        /\ ~Agree(case.d, d2, Paths \ Masked(case.ms)) => r1.d # r2.d

\* C17: the failures named are exactly the matchers that cannot be satisfied, in order
FailuresNamed ==
  LET r == res IN
  \A i \in DOMAIN r.errs : \E k \in DOMAIN case.ms : <<case.ms[k].name, case.ms[k].p>> = r.errs[i]

\* ErrOnMissingPath(false): a missing path is ignored
MissingIgnored ==
  \A k \in DOMAIN case.ms :
     (~case.ms[k].eomp /\ \A p \in Paths : ~Has(case.d, case.ms[k].p)) =>
        ~\E i \in DOMAIN res.errs : res.errs[i] = <<case.ms[k].name, case.ms[k].p>> /\ case.ms[k].m # "type" /\ case.ms[k].m # "custom"
=============================================================================
