SPECIFICATION Spec
CONSTANTS
  Tests = {"TestA"}
  MaxK = 2
  Alphabet <- mcAlpha6
  MaxBody = 2
  MaxOps = 3
  Modes = {"create", "ci", "update", "noupd"}
  InitFiles <- mcEmpty
  ExcludeKnown = TRUE
  EmitHist = TRUE
  Plan <- mcPlanPair
CHECK_DEADLOCK FALSE
